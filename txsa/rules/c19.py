"""C19 - signatures split into complete types; inferred variant types always
encode: wrapper table, shape of inferred signatures, one splitter, dead
decisions, and tiling / bracket-matching obligations of the splitter."""
import ast

from .. import spec
from ..codec import CodecModel
from ..loader import AnalysisError
from ..sym import (C, NONE, Interp, State, affine, contains, is_const,
                   iter_events, kind, subst_fold, term_str, truth, try_py,
                   walk_term)
from .codec_rules import aff, strip_sites

META = {
    'level': 'other',
    'rule_text': 'Instances: one per wrapper class; one per return path of '
                 'sigFromPy; one per body path of the splitter\'s loop '
                 '(tiling) and of the bracket matcher; one per place that '
                 'counts or splits a signature; one per if/elif chain of the '
                 'anchored functions.',
    'explanation': 'Necessary structural conditions of the property, decided '
                   'from the source: the wrapper classes, variantClassMap '
                   'and the specification\'s type table agree; every value '
                   'sigFromPy can return has the shape of exactly one '
                   'complete type (basic code, a+T, (T*), a{TT}, a{Tv}, av); '
                   'each iteration of the splitter yields a piece that '
                   'starts at the current index and advances the index by '
                   'exactly the length of the piece (so the pieces tile the '
                   'input: they concatenate to it); bracketed pieces end at '
                   'the index where the matcher\'s depth counter returns to '
                   'zero for the right bracket pair; every place that counts '
                   'or splits a signature goes through that one splitter; no '
                   'if/elif chain repeats a test (a repeated test hides a '
                   'dead decision). That the hand-written splitter returns '
                   'exactly the grammar\'s decomposition for every signature '
                   'is program verification and is NOT decided beyond these '
                   'conditions.',
    'trusted_base': ['txsa/spec.py type table', 'txsa.sym interpreter',
                     'CPython ast'],
    'assumptions': ['signatures handed to the splitter are valid (balanced)'],
    'decided': ['D1 wrapper table', 'D2 also: every basic Python type is inferred as the code of its own D-Bus type; an int is INT32 exactly when it fits (boundary values)', 'D2 inferred signature is one complete '
                'type; homogeneity flags are only ever lowered inside the '
                'element loop', 'D3 one splitter', 'D4 no dead decision',
                'D5 splitter tiling and bracket matching',
                'D6 variant and array encoder/decoder agreement (shared with '
                'C01/C02)'],
    'undecided': ['exactness of the splitter on every valid signature',
                  'value round trip under the inferred signature (C01)'],
}

BASIC = set('ybnqiuxtdsogh')


def run(ctx):
    prog = ctx.prog
    m = prog.module('marshal')
    it = Interp(prog)
    fi0 = prog.func('marshal.sigFromPy')
    it._stack.append(fi0)
    # D1 wrapper table ---------------------------------------------------------
    vmap = it.module_name(m, 'variantClassMap')
    if kind(vmap) != 'dict':
        raise AnalysisError('marshal.variantClassMap is not a literal table')
    int_codes = set('ybnqiuxt')
    for k_, v_ in vmap[1]:
        code = k_[1] if is_const(k_) else None
        ok = kind(v_) == 'class'
        c = prog.all_classes.get(v_[1]) if ok else None
        sig = it.class_attr_term(c, 'dbusSignature') if c else None
        ctx.ob('C19.D1', 'marshal.variantClassMap', 'entry:%s' % code,
               ok and sig == C(code),
               'variantClassMap[%r] must be the wrapper class whose '
               'dbusSignature is %r; it is %s with signature %s' % (
                   code, code, v_[1] if ok else term_str(v_),
                   term_str(sig) if sig else None))
        if c is not None:
            base = c.ext_bases[0] if c.ext_bases else None
            want = 'int' if code in int_codes else 'str'
            ctx.ob('C19.D1', c.qualname, 'base-type', base == want,
                   'wrapper for %r must derive from %s; derives from %s'
                   % (code, want, base), nontrivial=False)
            nm = spec.TYPE_NAMES.get({
                'Byte': 'BYTE', 'Boolean': 'BOOLEAN', 'Int16': 'INT16',
                'UInt16': 'UINT16', 'Int32': 'INT32', 'UInt32': 'UINT32',
                'Int64': 'INT64', 'UInt64': 'UINT64',
                'Signature': 'SIGNATURE', 'ObjectPath': 'OBJECT_PATH',
            }.get(c.name, ''))
            if nm is not None:
                ctx.ob('C19.D1', c.qualname, 'name-matches-code',
                       nm == code, 'class %s must wrap type %r; its code is '
                       '%r' % (c.name, nm, code))
    # D2 shapes --------------------------------------------------------------------
    paths = Interp(prog, exc_edges=False).run(fi0)
    pobj = ('param', fi0.params()[0])
    n_ret = 0
    codes_seen = set()
    for p in paths:
        if p.outcome != 'return':
            continue
        n_ret += 1
        v = p.value
        shape = shape_of(v, pobj)
        if is_const(v):
            codes_seen.add(v[1])
        ctx.ob('C19.D2', fi0.qualname, 'shape:%s' % (shape or 'unknown'),
               shape is not None,
               'sigFromPy can return %s, which is not evidently a single '
               'complete type' % term_str(v)[:80])
    ctx.extra['inferred_constants'] = sorted(codes_seen)
    # each basic Python type is inferred as the code of ITS D-Bus type (a
    # value must be encodable under the signature inferred for it): decided
    # from the type test the returning path passed last
    EXPECT = {'bool': ('b',), 'int': ('i', 'x', 't', 'n', 'q', 'u', 'y'),
              'float': ('d',), 'str': ('s',), 'bytearray': ('ay',),
              'bytes': ('ay',)}
    n_basic = 0
    for p in paths:
        if p.outcome != 'return' or not is_const(p.value):
            continue
        tested = None
        for c, pol in p.cond:
            if not pol:
                continue
            if kind(c) == 'call' and c[1] == 'isinstance' and \
                    c[3][0] == pobj and kind(c[3][1]) == 'builtin':
                tested = c[3][1][1]
            if kind(c) == 'cmp' and c[1] in ('==', 'is') and \
                    kind(c[3]) == 'builtin' and kind(c[2]) == 'call' and \
                    c[2][1] == 'type' and c[2][3] == (pobj,):
                tested = c[3][1]
        if tested in EXPECT:
            n_basic += 1
            ctx.ob('C19.D2', fi0.qualname, 'basic-inference:%s' % tested,
                   p.value[1] in EXPECT[tested],
                   'a Python %s is inferred as %r; it must be %s (the value '
                   'cannot be encoded under another type)' % (
                       tested, p.value[1], ' / '.join(EXPECT[tested])))
    if n_basic < 5:
        raise AnalysisError('sigFromPy: only %d basic-type return paths '
                            'recognised' % n_basic)
    # "all elements have one type" flags: start True before the loop over
    # the elements and may only ever be LOWERED inside it (a flag that is
    # recomputed per element reflects the last element only)
    n_flags = 0
    seen_flags = set()
    for p in paths:
        for ev in p.trace:
            if ev[0] != 'loop':
                continue
            lid, pre = ev[1], ev[5]
            for slot, pv in pre.items():
                if pv != C(True) or (lid, slot) in seen_flags:
                    continue
                seen_flags.add((lid, slot))
                n_flags += 1
                lv = ('loopvar', lid, slot)
                bad = None
                for bp in ev[4]:
                    val = bp.state.store.get(slot, lv)
                    mono = val in (lv, C(False)) or (
                        kind(val) == 'boolop' and val[1] == 'and' and
                        lv in val[2])
                    if not mono:
                        bad = val
                ctx.ob('C19.D2', fi0.qualname, 'homogeneity-flag:%s@%s'
                       % (slot, lid[1] if isinstance(lid, tuple) else lid),
                       bad is None,
                       'the flag %r says "every element has the type of the '
                       'first"; inside the loop it may only be set to False '
                       '(or and-ed), but a path assigns %s: the flag then '
                       'reflects only the LAST element, and a mixed '
                       'container is inferred as homogeneous (it cannot be '
                       'encoded under that signature)'
                       % (slot, term_str(bad)[:60] if bad else ''))
    # the element type of a homogeneous list is inferred from the element
    # the others were compared with: `all elements are instances of
    # type(pobj[0])` says nothing about the signature of pobj[-1] (a bool
    # after an int, an Int16 after a plain int)
    pobj0 = ('param', fi0.params()[0])
    n_ref = 0
    for p in paths:
        v = p.value if p.outcome == 'return' else None
        if not (kind(v) == 'binop' and v[1] == '+' and v[2] == C('a') and
                kind(v[3]) == 'call' and v[3][1] == fi0.qualname and
                len(v[3][3]) == 1):
            continue
        refs = set()
        terms = [c for c, _ in p.cond]
        for ev in p.trace:
            if ev[0] == 'loop':
                for bp in ev[4]:
                    terms += [c for c, _ in bp.cond]
        for t0 in terms:
            for t in walk_term(t0):
                if kind(t) == 'call' and t[2] == ('builtin', 'type') and \
                        len(t[3]) == 1 and kind(t[3][0]) == 'sub' and \
                        t[3][0][1] == pobj0:
                    refs.add(t[3][0])
        if not refs:
            continue
        n_ref += 1
        ctx.ob('C19.D2', fi0.qualname, 'element-type-from-the-reference',
               v[3][3][0] in refs,
               'the elements of a list are compared with the type of %s, but '
               'the element signature is inferred from %s: a list whose '
               'other elements are instances of a SUBCLASS with another '
               'D-Bus type (True after 2, Int16 after a plain int) gets a '
               'signature its first element cannot be encoded under'
               % (', '.join(sorted(term_str(r) for r in refs)),
                  term_str(v[3][3][0])))
    ctx.extra['list_reference_paths'] = n_ref
    n_all = sum(1 for n in ast.walk(fi0.node) if isinstance(n, ast.Call) and
                isinstance(n.func, ast.Name) and n.func.id == 'all')
    if n_flags + n_all < 2:
        raise AnalysisError('sigFromPy: the homogeneity flags of the list '
                            'and dict branches were not recognised (%d)'
                            % n_flags)
    if n_ret < 8:
        raise AnalysisError('sigFromPy: only %d return paths' % n_ret)
    # an int is inferred INT32 exactly when it fits: evaluated at the
    # boundaries (the test may be written as a range, with bit_length, ...)
    from ..sym import subst_fold, truth
    n_bound = 0
    for v in (0, 1, -1, 2 ** 31 - 1, 2 ** 31, -2 ** 31, -2 ** 31 - 1,
              2 ** 32 - 1, -2 ** 32 + 1, 2 ** 32, 2 ** 62,
              2 ** 63 - 1, -2 ** 63 + 1, -2 ** 63):
        got = set()
        for p in int_paths if False else [
                q for q in paths if q.outcome in ('return', 'raise') and any(
                    kind(c) == 'call' and c[1] == 'isinstance' and pol and
                    c[3][1] == ('builtin', 'int') for c, pol in q.cond)]:
            feas = True
            for c, pol in p.cond:
                if kind(c) == 'call' and c[1] == 'isinstance':
                    continue
                if not contains(c, lambda x: x == pobj):
                    continue
                tv = truth(subst_fold(c, {pobj: C(v)}))
                if tv is None:
                    if contains(c, lambda x: kind(x) == 'call' and
                                x[1] in ('getattr', 'isinstance', 'type',
                                         'hasattr')):
                        continue     # not a test of the VALUE
                    feas = None
                    break
                if tv != pol:
                    feas = False
                    break
            if feas is None:
                got.add('?')
            elif feas and p.outcome == 'raise':
                got.add('<raises>')
            elif feas and is_const(p.value):
                got.add(p.value[1])
        if '?' in got or not got:
            continue
        n_bound += 1
        # every value INT64 can hold has a signature (the round trip of an
        # int inside a variant starts here)
        ctx.ob('C19.D2', fi0.qualname, 'int64-range-has-a-signature:%d' % v,
               '<raises>' not in got,
               'the int %d, which INT64 holds, is refused by the inference '
               '(%s): it cannot be sent as a variant or inside a container '
               'any more' % (v, sorted(got)))
        got.discard('<raises>')
        if not got:
            continue
        fits = -2 ** 31 <= v < 2 ** 31
        ok = (got == {'i'}) if fits else ('i' not in got)
        ctx.ob('C19.D2', fi0.qualname, 'int32-exactly-when-it-fits:%d' % v,
               ok, 'the int %d is inferred as %s; INT32 ("i") holds exactly '
               '-2**31 .. 2**31-1 - a value outside that is inferred "i" '
               'cannot be encoded, one inside that is not wastes nothing but '
               'changes the wire type' % (v, sorted(got)))
    ctx.extra['int_boundaries_evaluated'] = n_bound
    # wide integers must not be inferred as INT32
    int_paths = [p for p in paths if p.outcome == 'return' and any(
        kind(c) == 'call' and c[1] == 'isinstance' and pol and
        c[3][1] == ('builtin', 'int') for c, pol in p.cond)]
    rets = {p.value[1] for p in int_paths if is_const(p.value)}
    ctx.ob('C19.D2', fi0.qualname, 'wide-int-not-int32',
           'x' in rets or 't' in rets,
           'every Python int is inferred as %s: an integer outside the '
           'INT32 range gets a signature under which it cannot be encoded'
           % sorted(rets))
    # D4 dead decisions ---------------------------------------------------------------
    for q in ('marshal.sigFromPy', 'marshal.genCompleteTypes',
              'marshal.marshal', 'marshal.unmarshal'):
        fi = prog.func(q)
        dead = repeated_tests(fi.node)
        ctx.ob('C19.D4', q, 'no-repeated-test', not dead,
               'an if/elif chain tests %s twice: the second branch is '
               'unreachable' % dead[:1])
    # D3 one splitter -----------------------------------------------------------------
    for q, attrs in (('interface.DBusInterface.addMethod', ('nargs', 'nret')),
                     ('interface.DBusInterface.addSignal', ('nargs',))):
        fi = prog.func(q)
        src = ast.unparse(fi.node)
        stored = {}
        for p_ in Interp(prog, exc_edges=False).run(fi):
            for e in iter_events(p_.trace):
                if e[0] == 'setattr' and e[2] in attrs:
                    stored.setdefault(e[2], []).append(e[3])
        for a in attrs:
            # the stored count is computed from the splitter's output
            # (directly or through a helper, which is inlined)
            ok = bool(stored.get(a)) and all(contains(
                v, lambda x: kind(x) == 'call' and
                x[1] == 'marshal.genCompleteTypes') for v in stored[a])
            ctx.ob('C19.D3', q, 'counts-with-splitter:%s' % a, ok,
                   '%s must be the number of complete types, counted with '
                   'genCompleteTypes' % a)
    # bracket pairs: decided per opening character by folding the branch
    # conditions and the matcher's arguments with sig[i] := that character
    gct = prog.func('marshal.genCompleteTypes')
    from ..loader import nested_by_role
    fe = nested_by_role(gct, 'find_end', 'only')
    if fe is None:
        # lifted out of the generator: the module-level function it calls
        # with a pair of bracket characters as its last two arguments
        for n_ in prog._iter_scope(gct.node):
            if isinstance(n_, ast.Call) and isinstance(n_.func, ast.Name) \
                    and n_.func.id in gct.module.funcs and \
                    len(n_.args) >= 3 and all(
                        isinstance(a_, ast.Constant) and
                        isinstance(a_.value, str) and len(a_.value) == 1
                        for a_ in n_.args[-2:]):
                fe = gct.module.funcs[n_.func.id]
                break
    sigp = ('param', gct.params()[0])
    pairs = set()
    unmatched = []
    for p in Interp(prog, exc_edges=False, no_inline=(
            {fe.qualname} if fe is not None else ())).run(gct)[:1]:
        for ev in p.trace:
            if ev[0] != 'loop' or ev[2] != 'while':
                continue
            for ch in '(){}' + ''.join(sorted(BASIC)) + 'av':
                for bp in ev[4]:
                    cur = [t for t in walk_term(bp.cond[0][0])
                           if kind(t) == 'loopvar'] if bp.cond else []
                    if not cur:
                        continue
                    env = {('sub', sigp, cur[0]): C(ch)}
                    feas = True
                    for c, pol in bp.cond[1:]:
                        tv = truth(subst_fold(c, env))
                        if tv is not None and tv != pol:
                            feas = False
                    if not feas:
                        continue
                    fcalls = [c for c in bp.calls()
                              if fe is not None and c[1] == fe.qualname and
                              len(c[3]) >= 3]
                    for c in fcalls:
                        b_, e_ = (subst_fold(a, env) for a in c[3][-2:])
                        pairs.add((b_[1] if is_const(b_) else None,
                                   e_[1] if is_const(e_) else None))
                    if ch in '({' and not fcalls:
                        unmatched.append(ch)
    ctx.ob('C19.D3', gct.qualname, 'bracket-pairs',
           pairs == {('(', ')'), ('{', '}')} and not unmatched,
           'the matcher must be used for ( ) and { } and for nothing else; '
           'used for %s%s' % (sorted(pairs, key=str), '; a path yields %s '
                              'without looking for its closing bracket'
                              % unmatched if unmatched else ''))
    tiling(ctx, gct)
    matcher(ctx, fe)
    # variants encode under the inferred signature and decode back: the
    # variant clauses of the codec cross-check (C01-D5/D7, C02-D5)
    from . import c01, codec_rules as R
    cm = CodecModel(prog)
    for le, _ in R.ORDERS:
        c01.variant_rules(ctx, cm, 'C19.D6', 'C19.D6', le,
                          rule_spec='C19.D6')
        # every container the inference can produce is an ARRAY (av, aT,
        # a{sv}, a{kT}): the array encoder and decoder must account for
        # length, padding and elements alike (C01-D6)
        c01.array_encoder(ctx, cm, 'C19.D6', le)
        c01.array_decoder(ctx, cm, 'C19.D6', le)
        for fi in (cm.enc['v'], cm.dec['v']):
            for p in cm.paths(fi, le):
                R.check_threading(ctx, cm, 'C19.D6', fi, le, p, fi.name)
    R.signature_length_limit(ctx, cm, 'C19.D6')

    # the signature a variant carries is a 'g' value: its writer and reader
    # must agree on the length byte (unsigned, up to 255), the payload and
    # the size (the string-like clauses of C01-D3, for 'g' only)
    class _OnlyG:
        prog = ctx.prog
        tier = ctx.tier
        extra = {}

        def ob(self, rule, where, slot, ok, msg, detail=None,
               nontrivial=True, loc=None):
            if ':g:' in slot or slot.endswith(':g'):
                ctx.ob('C19.D6', where, slot, ok,
                       '[the signature of a variant is a SIGNATURE value] '
                       + msg, detail, nontrivial, loc)
            return ok

        def floor(self, *a):
            pass

        def advisory(self, *a):
            pass
    R.r_stringlike(_OnlyG(), cm, 'C01.D3', None)
    ctx.floor('C19.D6', 10)
    ctx.floor('C19.D1', 10)
    ctx.floor('C19.D2', 8)
    ctx.floor('C19.D3', 4)
    ctx.floor('C19.D4', 4)
    ctx.floor('C19.D5', 6)


def shape_of(v, pobj):
    """Name of the complete-type shape of a returned term, or None."""
    T = lambda t: kind(t) == 'call' and t[1] == 'marshal.sigFromPy'
    if is_const(v) and isinstance(v[1], str):
        s = v[1]
        if len(s) == 1 and s in BASIC:
            return 'basic'
        if s in ('av', 'ay', 'a{sv}'):
            return 'const:' + s
        return None
    if kind(v) == 'call' and v[1] == 'getattr':
        # ... of the VALUE (the encoder reads dbusOrder from the value too:
        # a declaration made on the instance must be found)
        if v[3] and v[3][0] == pobj and len(v[3]) > 1 and \
                v[3][1] == C('dbusSignature'):
            return 'declared-dbusSignature'
        return None
    if kind(v) == 'binop' and v[1] == '+':
        flat = flatten_concat(v)
        if len(flat) == 2 and flat[0] == C('a') and T(flat[1]):
            return 'array-of-T'
        if len(flat) == 3 and flat[0] == C('(') and flat[2] == C(')') and \
                kind(flat[1]) == 'call' and kind(flat[1][2]) == 'attr' and \
                flat[1][2][2] == 'join' and flat[1][2][1] == C(''):
            return 'struct-of-T*'
        if len(flat) == 4 and flat[0] == C('a{') and T(flat[1]) and \
                T(flat[2]) and flat[3] == C('}'):
            return 'dict-of-TT'
        if len(flat) == 3 and flat[0] == C('a{') and T(flat[1]) and \
                flat[2] == C('v}'):
            return 'dict-of-Tv'
    return None


def flatten_concat(t):
    if kind(t) == 'binop' and t[1] == '+':
        return flatten_concat(t[2]) + flatten_concat(t[3])
    return [t]


def repeated_tests(fnode):
    out = []
    for n in ast.walk(fnode):
        if isinstance(n, ast.If):
            chain = []
            cur = n
            while True:
                chain.append(ast.dump(cur.test))
                if len(cur.orelse) == 1 and isinstance(cur.orelse[0],
                                                       ast.If):
                    cur = cur.orelse[0]
                else:
                    break
            seen = set()
            for i, t in enumerate(chain):
                if t in seen:
                    out.append(ast.unparse(_nth_test(n, i)))
                seen.add(t)
    return sorted(set(out))


def _nth_test(n, i):
    cur = n
    for _ in range(i):
        cur = cur.orelse[0]
    return cur.test


def tiling(ctx, gct):
    prog = ctx.prog
    sigp = ('param', gct.params()[0])
    paths = Interp(prog, exc_edges=False).run(gct)
    n = 0
    for p in paths:
        for ev in p.trace:
            if ev[0] != 'loop' or ev[2] != 'while':
                continue
            lid = ev[1]
            for bp in ev[4]:
                if bp.outcome != 'continue':
                    continue
                ys = [e[1] for e in bp.trace if e[0] == 'yield']
                if len(ys) != 1:
                    ctx.ob('C19.D5', gct.qualname, 'one-piece-per-iteration',
                           False, 'each iteration must yield exactly one '
                           'piece; yields %d' % len(ys))
                    continue
                y = ys[0]
                # index slot
                t0, pol0 = bp.cond[0]
                slot = t0[2][2] if kind(t0) == 'cmp' and \
                    kind(t0[2]) == 'loopvar' else None
                if slot is None:
                    raise AnalysisError('genCompleteTypes: loop test is not '
                                        'index < end')
                i0 = ('loopvar', lid, slot)
                i1 = bp.state.store.get(slot)
                adv = aff(('binop', '-', i1, i0), bp.state.falsy)
                tag = _branch_tag(bp)
                n += 1
                # piece starts at i0 and has length = advance
                if kind(y) == 'sub' and y[1] == sigp and \
                        kind(y[2]) == 'slice':
                    lo, hi = y[2][1], y[2][2]
                    ln = aff(('binop', '-', hi, lo), bp.state.falsy)
                    ok = lo == i0 and ln == adv
                    what = 'slice [%s:%s]' % (term_str(lo)[:30],
                                              term_str(hi)[:50])
                elif kind(y) == 'sub' and y[1] == sigp and y[2] == i0:
                    ok = adv == {1: 1}
                    what = 'single code at the index'
                elif kind(y) == 'binop' and y[1] == '+' and y[2] == C('a'):
                    inner = y[3]
                    # inner = next(genCompleteTypes(sig[i0+1:]))
                    okin = contains(inner, lambda x: kind(x) == 'sub' and
                                    x[1] == sigp and kind(x[2]) == 'slice'
                                    and aff(('binop', '-', x[2][1], i0)) ==
                                    {1: 1} and x[2][2] == NONE)
                    isa = any(kind(c) == 'cmp' and c[1] == '==' and pol and
                              c[2] == ('sub', sigp, i0) and c[3] == C('a')
                              for c, pol in bp.cond)
                    want = aff(('binop', '+', C(1), ('len', inner)))
                    ok = okin and isa and adv == want
                    what = "'a' + first complete type of the rest"
                else:
                    ok = False
                    what = term_str(y)[:60]
                if tag == 'array' and not what.startswith("'a' +"):
                    # an in-place scan of the element type instead of the
                    # recursive "'a' + first complete type of the rest": the
                    # piece must end either at the bracket the matcher found,
                    # or at a code that was TESTED not to open a container -
                    # tested at the index where the piece ends, i.e. after
                    # any further array markers were skipped
                    from .codec_rules import strip_sites
                    hi_ = y[2][2] if kind(y) == 'sub' and \
                        kind(y[2]) == 'slice' else None
                    last = hi_[2] if kind(hi_) == 'binop' and hi_[1] == '+' \
                        and hi_[3] == C(1) else None
                    if last is None:
                        raise AnalysisError(
                            'genCompleteTypes: the end of an array piece is '
                            'not <index> + 1 (%s)' % what)
                    if kind(last) != 'call':
                        at = strip_sites(('sub', sigp, last))
                        closed = {c[3][1] for c, pol in bp.cond
                                  if kind(c) == 'cmp' and c[1] == '==' and
                                  not pol and is_const(c[3]) and
                                  strip_sites(c[2]) == at}
                        ctx.ob('C19.D5', gct.qualname,
                               'array-piece-ends-at-a-tested-code',
                               {'(', '{'} <= closed,
                               'an array piece ends at index %s without the '
                               'bracket matcher, but the code at THAT index '
                               'was not tested against "(" and "{" (tested: '
                               '%s): after two or more array markers a '
                               'struct or dict-entry element is cut off '
                               'behind its opening bracket'
                               % (term_str(last)[:50], sorted(closed)))
                ctx.ob('C19.D5', gct.qualname, 'tiles:%s' % tag, ok,
                       'the piece yielded (%s) must start at the current '
                       'index and the index must advance by exactly its '
                       'length, so that the pieces concatenate to the input; '
                       'index advances by %s' % (what, _affs(adv)))
    if n < 3:
        raise AnalysisError('genCompleteTypes: only %d yielding branch(es)'
                            % n)


def _affs(a):
    from ..sym import affine_str
    return affine_str(a)


def _branch_tag(bp):
    for c, pol in bp.cond[1:]:
        if kind(c) == 'cmp' and c[1] == '==' and is_const(c[3]) and pol:
            return {'(': 'struct', '{': 'dict-entry', 'a': 'array'}.get(
                c[3][1], c[3][1])
    return 'basic'


def matcher(ctx, fe):
    """find_end(idx, b, e): depth starts at 1, +1 on b, -1 on e, returns the
    index where it reaches 0."""
    prog = ctx.prog
    if fe is None:
        ctx.ob('C19.D5', 'marshal.genCompleteTypes', 'matcher-exists', False,
               'the bracket matcher find_end is missing')
        return
    ps = fe.params()[-3:]       # (start index, opening, closing)
    b, e = ('param', ps[1]), ('param', ps[2])
    paths = Interp(prog, exc_edges=False).run(fe)
    init_ok = False
    rows = {}
    for p in paths:
        for ev in p.trace:
            if ev[0] != 'loop':
                continue
            # the depth counter: the loop-carried slot that starts at 1
            dslots = [k_ for k_, v_ in ev[5].items() if v_ == C(1)]
            dname = dslots[0] if len(dslots) == 1 else 'depth'
            init_ok = ev[5].get(dname) == C(1)
            for bp in ev[4]:
                ch = None
                for c, pol in bp.cond:
                    if kind(c) == 'cmp' and c[1] == '==' and pol:
                        if c[3] == b:
                            ch = 'open'
                        elif c[3] == e:
                            ch = 'close'
                if ch is None and all(not pol for c, pol in bp.cond[1:]):
                    ch = 'other'
                d = bp.deltas.get(dname)
                dd = dict(d[1]).get(1, 0) if d and d[0] == 'num' else None
                if bp.outcome == 'return':
                    # returns idx when depth - 1 == 0
                    zero = any(kind(c) == 'cmp' and c[1] == '==' and pol and
                               c[3] == C(0) for c, pol in bp.cond)
                    v = bp.value
                    is_index = (kind(v) == 'loopvar' and v[2] == ps[0]) or (
                        # for idx in range(start, end): the element
                        kind(v) == 'elem' and v[1] == ev[3] and
                        kind(ev[3]) == 'call' and
                        ev[3][2] == ('builtin', 'range') and
                        len(ev[3][3]) == 2 and
                        ev[3][3][0] == ('param', ps[0]))
                    rows.setdefault('close-return', []).append(
                        zero and is_index)
                elif ch is not None:
                    rows.setdefault(ch, []).append(dd)
    ctx.ob('C19.D5', fe.qualname, 'depth-starts-at-1', init_ok,
           'the matcher is entered just after an opening bracket: its depth '
           'counter must start at 1')
    ctx.ob('C19.D5', fe.qualname, 'open-increments',
           bool(rows.get('open')) and set(rows['open']) == {1}, 'an opening bracket must increase the '
           'depth by 1; effect %s' % rows.get('open'))
    ctx.ob('C19.D5', fe.qualname, 'close-decrements',
           bool(rows.get('close')) and all(x == -1 for x in rows['close']),
           'a closing bracket must decrease the depth by 1; effect %s'
           % rows.get('close'))
    ctx.ob('C19.D5', fe.qualname, 'returns-at-depth-0',
           bool(rows.get('close-return')) and all(rows['close-return']),
           'the matcher must return the index at which the depth returns to '
           '0')
    ctx.ob('C19.D5', fe.qualname, 'others-neutral',
           all(x in (0, None) for x in rows.get('other', [0])),
           'other characters must leave the depth unchanged',
           nontrivial=False)
