"""C20 - file descriptors stay attached to their message: ordering and FIFO
obligations (sender order, declared count, receiver queue discipline, fresh
out-of-band list per message)."""
import ast

from .. import spec
from ..codec import CodecModel, pack_call, unpack_call
from ..loader import AnalysisError
from ..sym import (C, NONE, Interp, contains, is_const, iter_events, kind,
                   term_str, walk_term)
from . import codec_rules as R
from .codec_rules import P, ret_paths, split_ret, strip_sites

META = {
    'level': 'other',
    'rule_text': 'Instances: every path of the sender (sendMessage), of the '
                 'receiver queue handlers (fileDescriptorReceived, '
                 'rawDBusMessageReceived), of the header construction '
                 '(_marshal) and of the two descriptor codecs; every message '
                 'construction site for the freshness rule.',
    'explanation': 'Ordering/FIFO obligations visible in the shape of the '
                   'code: descriptors are sent in a forward iteration of the '
                   'message\'s own list before its bytes on every path; the '
                   'unix_fds header is len() of the very list handed to the '
                   'body encoder; the encoder writes the list length before '
                   'appending (index = position) and the decoder indexes the '
                   'out-of-band list with the decoded value; the receiver '
                   'appends every arriving descriptor, gives the parser the '
                   'live queue and afterwards drops exactly unix_fds entries '
                   'from the front; out-of-band lists are fresh per message. '
                   'Attribution under concrete arrival interleavings follows '
                   'from these by the FIFO argument (on paper) and is not '
                   'explored.',
    'trusted_base': ['CPython ast', 'txsa.sym interpreter',
                     'stream sockets deliver descriptors in sending order, '
                     'each no later than the last byte of its message'],
    'assumptions': ['handlers run to completion (Twisted reactor)'],
    'decided': ['D1 sender order', 'D2 declared count and index; the '
                'descriptor list is handed on to every nested codec call',
                'D3 receiver FIFO; every message type consumes its declared descriptors; the queue is rebound only where it is created and by the consumer', 'D4 fresh list per message'],
    'undecided': ['attribution under concrete arrival interleavings'],
}

Q = 'protocol.BasicDBusProtocol'
FDQ = '_receivedFDs'


def run(ctx):
    prog = ctx.prog
    it = lambda **kw: Interp(prog, exc_edges=False, **kw)
    # D1 sender order --------------------------------------------------------
    fi = prog.func(Q + '.sendMessage')
    msg = ('param', fi.params()[1])
    paths = it().run(fi)
    n = 0
    for p in paths:
        if p.outcome == 'raise':
            continue
        writes = [i for i, ev in enumerate(p.trace) if ev[0] == 'call' and
                  kind(ev[1][2]) == 'attr' and ev[1][2][2] == 'write']
        n += 1
        ok = len(writes) == 1 and p.trace[writes[0]][1][3] == (
            ('attr', msg, 'rawMessage'),)
        ctx.ob('C20.D1', fi.qualname, 'writes-message-once', ok,
               'every path must write the message bytes exactly once')
        for i, ev in enumerate(p.trace):
            sends = []
            if ev[0] == 'loop' and any(
                    kind(c[2]) == 'attr' and c[2][2] == 'sendFileDescriptor'
                    for bp in ev[4] for c in bp.calls()):
                # the header declares one descriptor per 'h' argument and the
                # receiver takes that many off its queue: every turn of the
                # loop sends one - none is skipped (a duplicate included)
                quiet = [bp for bp in ev[4] if bp.outcome != 'raise' and
                         sum(1 for c in bp.calls() if kind(c[2]) == 'attr'
                             and c[2][2] == 'sendFileDescriptor') != 1]
                ctx.ob('C20.D1', fi.qualname, 'every-turn-sends-one',
                       not quiet,
                       'a turn of the loop over the message\'s descriptors '
                       'sends none (or several) [%s]: the header announces '
                       'one descriptor per UNIX_FD argument, the receiver '
                       'takes that many from its queue - and so consumes '
                       'descriptors of the NEXT message' % (
                           '; '.join('%s is %s' % (term_str(c)[:50], pol)
                                     for c, pol in quiet[0].cond[-2:])
                           if quiet else ''))
            if ev[0] == 'loop':
                for bp in ev[4]:
                    for c in bp.calls():
                        if kind(c[2]) == 'attr' and \
                                c[2][2] == 'sendFileDescriptor':
                            sends.append((c, ev))
            elif ev[0] == 'call' and kind(ev[1][2]) == 'attr' and \
                    ev[1][2][2] == 'sendFileDescriptor':
                sends.append((ev[1], None))
            for c, loop in sends:
                ok = bool(writes) and i < writes[0]
                ctx.ob('C20.D1', fi.qualname, 'descriptors-before-bytes', ok,
                       'descriptors must be handed to the transport before '
                       'the bytes of their message')
                if loop is not None:
                    itv = loop[3]
                    if kind(itv) == 'boolop' and itv[1] == 'or' and \
                            len(itv[2]) == 2 and itv[2][1] in (
                                ('tuple', ()), ('list', ())):
                        itv = itv[2][0]      # `<list> or ()`
                    okit = itv == ('attr', msg, 'oobFDs') or (
                        kind(itv) == 'call' and itv[1] == 'getattr' and
                        itv[3][:2] == (msg, C('oobFDs')))
                    ctx.ob('C20.D1', fi.qualname, 'forward-over-own-list',
                           okit, 'descriptors must be sent in a forward '
                           'iteration of the message\'s own list; iterates '
                           '%s' % term_str(loop[3])[:100])
                    oke = len(c[3]) == 1 and kind(c[3][0]) == 'elem'
                    ctx.ob('C20.D1', fi.qualname, 'sends-each-element', oke,
                           'each descriptor of the list must be sent',
                           nontrivial=False)
        # a path that skips the descriptors is only allowed when the list is
        # absent / empty
        has_send = any(ev[0] == 'loop' and any(
            kind(c[2]) == 'attr' and c[2][2] == 'sendFileDescriptor'
            for bp in ev[4] for c in bp.calls()) for ev in p.trace)
        always_loops = any(
            ev[0] == 'loop' and kind(ev[3]) == 'boolop' for ev in p.trace)
        if not has_send and not always_loops:
            fds = ('attr', msg, 'oobFDs')

            def is_fds(t):
                # msg.oobFDs or getattr(msg, 'oobFDs'[, default])
                return t == fds or (
                    kind(t) == 'call' and t[1] == 'getattr' and
                    t[3][:2] == (msg, C('oobFDs')))
            ok = any(is_fds(t) for t in p.state.falsy) or any(
                kind(c) == 'call' and c[1] == 'hasattr' and not pol
                for c, pol in p.cond)
            ctx.ob('C20.D1', fi.qualname, 'skip-only-when-empty', ok,
                   'a path that sends no descriptor is allowed only when the '
                   'message carries none')
    # D2 count / index ------------------------------------------------------
    cm = CodecModel(prog)
    enc, dec = cm.enc['h'], cm.dec['h']
    for le in (True, False):
        tag = 'LE' if le else 'BE'
        for p in ret_paths(cm.paths(enc, le)):
            size, chunks = split_ret(p)
            oob = P(enc, 4)
            pc = None
            if kind(chunks) == 'list' and len(chunks[1]) == 1:
                pc = pack_call(chunks[1][0][1])
            want = ('call', 'len', ('builtin', 'len'), (oob,), (), None)
            ok = pc is not None and len(pc[1]) == 1 and \
                strip_sites(pc[1][0]) == want
            ctx.ob('C20.D2', enc.qualname, 'index=position:' + tag, ok,
                   'the encoded value must be the length of the out-of-band '
                   'list before the descriptor is appended (index = '
                   'position); encodes %s' % (
                       term_str(pc[1][0])[:80] if pc else '?'))
            app = [ev for ev in p.trace if ev[0] == 'mutate' and
                   ev[2] == 'append' and ev[3] == (P(enc, 1),)]
            ctx.ob('C20.D2', enc.qualname, 'appends-descriptor:' + tag,
                   len(app) == 1, 'the descriptor must be appended to the '
                   'out-of-band list exactly once')
        for p in ret_paths(cm.paths(dec, le)):
            size, val = split_ret(p)
            oob = P(dec, 4)
            ok = False
            if kind(val) == 'sub' and val[1] == oob:
                idx = val[2]
                ok = kind(idx) == 'sub' and unpack_call(idx[1]) is not None
            elif val == NONE:
                ok = True      # IndexError handler
            ctx.ob('C20.D2', dec.qualname, 'resolves-by-index:' + tag, ok,
                   'the decoded value must be oobFDs[<decoded index>]; is %s'
                   % term_str(val)[:80])
    mfi = prog.func('message.DBusMessage._marshal')
    oobp = ('param', 'oobFDs')
    n_hdr = 0
    for p in it().run(mfi):
        sets = [ev for ev in p.trace if ev[0] == 'setattr' and
                ev[2] == 'unix_fds']
        body_calls = [c for c in p.calls() if c[1] == 'marshal.marshal' and
                      dict(c[4]).get('oobFDs') is not None]
        for ev in sets:
            n_hdr += 1
            want = ('call', 'len', ('builtin', 'len'), (oobp,), (), None)
            ok = strip_sites(ev[3]) == want and any(
                dict(c[4]).get('oobFDs') == oobp for c in body_calls)
            ctx.ob('C20.D2', mfi.qualname, 'header-count', ok,
                   'unix_fds must be len() of the very list handed to the '
                   'body encoder; is %s' % term_str(ev[3])[:80])
            ok = oobp in p.state.truthy
            ctx.ob('C20.D2', mfi.qualname, 'header-only-with-descriptors',
                   ok, 'the unix_fds header is added only when descriptors '
                   'were collected', nontrivial=False)
        if oobp in p.state.truthy and body_calls and not sets:
            ctx.ob('C20.D2', mfi.qualname, 'header-count', False,
                   'descriptors were collected but no unix_fds count is '
                   'declared on this path')
    if n_hdr == 0:
        ctx.ob('C20.D2', mfi.qualname, 'header-count', False,
               '_marshal never declares the descriptor count')
    # D3 receiver FIFO -------------------------------------------------------
    rfi = prog.func(Q + '.fileDescriptorReceived')
    fd = ('param', rfi.params()[1])
    selfp = ('param', 'self')
    queue = ('attr', selfp, FDQ)
    for p in it().run(rfi):
        ok = any(ev[0] == 'call' and ev[1][2] == ('attr', queue, 'append')
                 and ev[1][3] == (fd,) for ev in p.trace)
        ctx.ob('C20.D3', rfi.qualname, 'appends-every-descriptor',
               ok and p.outcome != 'raise',
               'every arriving descriptor must be appended to the queue (a '
               'path that drops one shifts all later attributions)',
               {'path': [(term_str(a)[:60], b) for a, b in p.cond]})
    xfi = prog.func(Q + '.rawDBusMessageReceived')
    n = 0
    for p in it().run(xfi):
        parses = [c for c in p.calls() if c[1] == 'message.parseMessage']
        if len(parses) != 1:
            ctx.ob('C20.D3', xfi.qualname, 'parses-once', False,
                   'the raw message must be parsed exactly once')
            continue
        pc = parses[0]
        n += 1
        ctx.ob('C20.D3', xfi.qualname, 'parser-gets-live-queue',
               len(pc[3]) >= 2 and pc[3][1] == queue,
               'parseMessage must be given the live descriptor queue; gets '
               '%s' % (term_str(pc[3][1])[:60] if len(pc[3]) > 1 else '-'))
        stores = [ev for ev in p.trace if ev[0] == 'setattr' and
                  ev[2] == FDQ]
        count = ('attr', pc, 'unix_fds')
        has = any(kind(c) == 'call' and c[1] == 'hasattr' and
                  c[3] == (pc, C('unix_fds')) and pol for c, pol in p.cond)
        has_not = any(kind(c) == 'call' and c[1] == 'hasattr' and
                      c[3] == (pc, C('unix_fds')) and not pol
                      for c, pol in p.cond)
        if has:
            # ... whatever the type of the message (a reply or a signal may
            # carry descriptors too)
            ok = len(stores) == 1 and stores[0][3] == (
                'sub', queue, ('slice', count, NONE, NONE))
            ctx.ob('C20.D3', xfi.qualname, 'consumes-count-from-front', ok,
                   'after parsing, exactly unix_fds descriptors must be '
                   'removed from the FRONT of the queue; stores %s' % (
                       [term_str(s[3])[:80] for s in stores]))
        elif has_not:
            ctx.ob('C20.D3', xfi.qualname, 'untouched-without-header',
                   not stores, 'without a unix_fds header the queue must be '
                   'left alone')
        else:
            ctx.ob('C20.D3', xfi.qualname, 'consumption-guarded', not stores,
                   'queue consumption must depend on the presence of the '
                   'unix_fds header')
            # ... and a path that never asks whether the message declares
            # descriptors leaves them at the head of the queue for the next
            # message (whatever the message type: replies and signals carry
            # descriptors too)
            ctx.ob('C20.D3', xfi.qualname, 'every-message-type-consumes',
                   False, 'a message is dispatched on a path that does not '
                   'look at its unix_fds header (%s): descriptors it '
                   'declares stay queued and are resolved by the NEXT '
                   'message that carries any' % [
                       (term_str(c)[-40:], pol) for c, pol in p.cond[-2:]])
    # D2: the descriptor list reaches every nested decoder/encoder ---------------
    # (a descriptor argument inside a struct, dict entry or array resolves
    # its index in the list the message came with - only if every container
    # codec hands that very list on)
    n_thread = 0
    for which, table, driver in (('enc', cm.enc, 'marshal.marshal'),
                                 ('dec', cm.dec, 'marshal.unmarshal')):
        dfi = prog.func(driver)
        funcs = {f.qualname: f for f in table.values()}
        funcs[driver] = dfi
        for q, f in sorted(funcs.items()):
            if 'oobFDs' not in f.params():
                continue
            if q == 'marshal.marshal_variant' and _variant_gap(cm):
                # one named exception: the variant ENCODER does not hand the
                # list on, so a descriptor inside a variant cannot be sent at
                # all (marshal_unix_fd raises on the missing list) - nothing
                # is mis-attributed; reported as an advisory below
                continue
            mine = ('param', 'oobFDs')
            for le in (True,):
                for p in cm.paths(f, le):
                    if p.outcome == 'raise':
                        continue
                    for c in p.calls():
                        callee = None
                        if c[1] == driver:
                            callee = dfi
                        elif kind(c[2]) == 'sub' and R._is_table(
                                c[2][1], cm, which):
                            callee = 'table'
                        if callee is None:
                            continue
                        if callee == 'table':
                            # table[code](ct, value/data, pos, lendian, fds)
                            passed = c[3][4] if len(c[3]) > 4 else \
                                dict(c[4]).get('oobFDs')
                        else:
                            b = dict(zip(dfi.params(), c[3]))
                            b.update(dict(c[4]))
                            passed = b.get('oobFDs')
                        n_thread += 1
                        ctx.ob('C20.D2', q, 'descriptor-list-handed-on',
                               passed == mine,
                               'a nested %s call does not receive the '
                               'descriptor list of the message (gets %s): a '
                               'UNIX_FD inside this container is resolved '
                               'against an empty or foreign list - the '
                               'declared count is still consumed, the '
                               'descriptor is lost' % (
                                   'encode' if which == 'enc' else 'decode',
                                   term_str(passed)[:40] if passed is not None
                                   else 'nothing'), nontrivial=False)
    if n_thread < 6:
        raise AnalysisError('C20: only %d nested codec calls seen' % n_thread)
    # D4 fresh list ---------------------------------------------------------------
    n = 0
    for f in prog.all_funcs.values():
        a = f.node.args
        pos = a.posonlyargs + a.args
        for prm, d in list(zip(pos[len(pos) - len(a.defaults):], a.defaults)) \
                + [(p_, d_) for p_, d_ in zip(a.kwonlyargs, a.kw_defaults)
                   if d_ is not None]:
            if prm.arg == 'oobFDs':
                n += 1
                ok = isinstance(d, ast.Constant) and d.value is None
                ctx.ob('C20.D4', f.qualname, 'no-mutable-default', ok,
                       'an oobFDs parameter must not default to a shared '
                       'mutable list')
        for node in prog._iter_scope(f.node):
            if isinstance(node, ast.Call):
                for kw in node.keywords:
                    if kw.arg == 'oobFDs' and not (
                            isinstance(kw.value, ast.Name) and
                            kw.value.id == 'oobFDs'):
                        n += 1
                        ok = isinstance(kw.value, ast.List) and \
                            not kw.value.elts or (
                                isinstance(kw.value, ast.Constant) and
                                kw.value.value is None)
                        ctx.ob('C20.D4', f.qualname,
                               'fresh-list-at-construction', ok,
                               'a message must be constructed with a fresh '
                               'out-of-band list (a list display), got %s'
                               % ast.unparse(kw.value))
    ctx.advisory('oobFDs is not threaded through marshal_variant (a UNIX_FD '
                 'inside a variant cannot be sent); no wrapper type infers '
                 '"h", so the property is unaffected') if _variant_gap(
                     cm) else None
    queue_rebinding(ctx)
    # the receiver learns how many descriptors a message owns from its
    # UNIX_FDS header field: the field must be read whatever precedes it (an
    # unknown field code skips that field only - C03.D3, re-reported)
    from . import c03 as _c03

    class _Reader:
        prog = ctx.prog
        tier = ctx.tier
        extra = {}

        def ob(self, rule, where, slot, ok, msg, detail=None,
               nontrivial=True, loc=None):
            if slot in ('unknown-code-skips-one-field',
                        'field-loop-visits-every-field'):
                ctx.ob('C20.D3', where, 'header:' + slot, ok,
                       '[the UNIX_FDS count is a header field of its '
                       'message] ' + msg, detail, nontrivial, loc)
            return ok

        def floor(self, *a):
            pass

        def advisory(self, *a):
            pass
    _c03.reader_rules(_Reader(), _c03.message_classes(ctx.prog))
    ctx.floor('C20.D1', 4)
    ctx.floor('C20.D2', 7)
    ctx.floor('C20.D3', 4)
    ctx.floor('C20.D4', 5)


def queue_rebinding(ctx):
    """Descriptors arrive (fileDescriptorReceived) before the bytes of the
    message they belong to - also before the last authentication line of the
    same read.  The queue may therefore be REBOUND only where it is created
    (connectionMade / __init__, to an empty list) and where the consumer cuts
    off what a message took (a slice of the queue itself); any other store
    drops descriptors that are waiting for their message."""
    prog = ctx.prog
    n = 0
    for fi in prog.all_funcs.values():
        if fi.module.name != 'protocol':
            continue
        for node in prog._iter_scope(fi.node):
            if not isinstance(node, ast.Assign):
                continue
            pairs = []
            for t in node.targets:
                if isinstance(t, (ast.Tuple, ast.List)) and \
                        isinstance(node.value, (ast.Tuple, ast.List)) and \
                        len(t.elts) == len(node.value.elts):
                    pairs.extend(zip(t.elts, node.value.elts))
                else:
                    pairs.append((t, node.value))
            for t, v in pairs:
                if not (isinstance(t, ast.Attribute) and t.attr == FDQ):
                    continue
                n += 1
                derived = any(isinstance(x, ast.Attribute) and x.attr == FDQ
                              for x in ast.walk(v))
                creating = fi.name in ('connectionMade', '__init__',
                                       'makeConnection')
                ctx.ob('C20.D3', fi.qualname, 'queue-rebound-only-by-'
                       'consumer', derived or creating,
                       '%s rebinds the descriptor queue to %s: descriptors '
                       'received ahead of their message (e.g. in the read '
                       'that also carries the end of the handshake) are '
                       'dropped and every later index is off'
                       % (fi.name, ast.unparse(v)[:40]),
                       loc='%s:%d' % (fi.module.relpath, node.lineno))
    if n == 0:
        raise AnalysisError('the descriptor queue is never bound')


def _variant_gap(cm):
    for p in ret_paths(cm.paths(cm.enc['v'], True)):
        for c in p.calls():
            if c[1] == 'marshal.marshal':
                callee = cm.prog.func('marshal.marshal')
                b = dict(zip(callee.params(), c[3]))
                b.update(dict(c[4]))
                if 'oobFDs' not in b:
                    return True
    return False
