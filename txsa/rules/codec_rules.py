"""Rules over the extracted codec model, shared by C01 (sibling agreement) and
C02 (conformance with the specification)."""
import struct

from .. import spec
from ..codec import (CodecModel, add_aff, item_len, pack_call, seq_len,
                     unpack_call)
from ..loader import AnalysisError
from ..sym import (C, NONE, affine, affine_str, contains, is_const,
                   iter_events, kind, term_str, try_py, walk_term)

ORDERS = ((True, '<'), (False, '>'))
PURE_INPKG = {'marshal.sigFromPy'}


def strip_sites(t):
    """Drop the call-site component of calls to pure in-package functions and
    builtins, so that two calls with equal arguments compare equal."""
    if not isinstance(t, tuple):
        return t
    if kind(t) == 'call' and (t[1] in PURE_INPKG or
                              kind(t[2]) == 'builtin'):
        return ('call', t[1], strip_sites(t[2]), strip_sites(t[3]),
                strip_sites(t[4]), None)
    return tuple(strip_sites(x) for x in t)


def aff(t, falsy=frozenset()):
    return affine(strip_sites(t), frozenset(strip_sites(x) for x in falsy))


def aff_eq(a, b, falsy=frozenset()):
    return aff(('binop', '-', a, b), falsy) == {}


def P(fi, name_or_idx):
    ps = fi.params()
    if isinstance(name_or_idx, int):
        if name_or_idx >= len(ps):
            raise AnalysisError('%s has no parameter #%d' % (fi.qualname,
                                                           name_or_idx))
        return ('param', ps[name_or_idx])
    return ('param', name_or_idx)


def ret_paths(paths):
    return [p for p in paths if p.outcome == 'return']


def split_ret(p):
    v = p.value
    if kind(v) == 'tuple' and len(v[1]) == 2:
        return v[1][0], v[1][1]
    return None, None


# ---------------------------------------------------------------------------

def r_tables(ctx, cm, rule):
    codes = [c for c, _, _ in cm.dbus_types]
    for c in codes:
        ok = c in cm.enc and c in cm.dec and c in cm.pad_keys
        ctx.ob(rule, 'marshal.dbus_types', 'code:%s' % c, ok,
               'type code %r must have an encoder, a decoder and a pad entry'
               % c, {'encoder': c in cm.enc, 'decoder': c in cm.dec,
                     'pad': c in cm.pad_keys})
    for name, tbl in (('marshallers', cm.enc), ('unmarshallers', cm.dec)):
        extra = sorted(set(tbl) - set(codes))
        ctx.ob(rule, 'marshal.%s' % name, 'no-extra-keys', not extra,
               '%s has keys that are not type codes: %s' % (name, extra))
    extra = sorted(set(cm.pad_keys) - set(codes) - {'header'})
    ctx.ob(rule, 'marshal.pad', 'no-extra-keys', not extra,
           'pad has keys that are not type codes: %s' % extra)
    for c in codes:
        if c in cm.pad_keys:
            ctx.ob(rule, 'marshal.pad', 'align-from-table:%s' % c,
                   cm.pad_keys[c] == cm.align[c],
                   'pad[%r] is built with alignment %r but dbus_types says %r'
                   % (c, cm.pad_keys[c], cm.align[c]))


def r_align_spec(ctx, cm, rule):
    for c, (al, _f, _s) in spec.TYPES.items():
        got = cm.align.get(c)
        ctx.ob(rule, 'marshal.dbus_types', 'align:%s' % c, got == al,
               'alignment of %r is %r, the specification says %r'
               % (c, got, al))
    for c, a, row in cm.dbus_types:
        names = [x for x in row if isinstance(x, str) and len(x) > 1]
        for nme in names:
            if nme in spec.TYPE_NAMES:
                ctx.ob(rule, 'marshal.dbus_types', 'name:%s' % nme,
                       spec.TYPE_NAMES[nme] == c,
                       'type %s has code %r, the specification says %r'
                       % (nme, c, spec.TYPE_NAMES[nme]), nontrivial=False)
    ctx.ob(rule, 'marshal.pad', 'header-align',
           cm.pad_keys.get('header') == spec.HEADER_ALIGN,
           "pad['header'] must align to 8, found %r"
           % cm.pad_keys.get('header'))


def r_padfn(ctx, cm, rule):
    where = cm.pad_builder
    for al in (1, 2, 4, 8):
        bad = []
        for x in range(0, 24):
            n, b = cm.pad_length(al, x)
            want = (-x) % al
            if n != want or b != b'\0' * want:
                bad.append({'position': x, 'alignment': al,
                            'padding': repr(b), 'expected_len': want})
        ctx.ob(rule, where, 'align%d' % al, not bad,
               'padding function wrong for alignment %d (positions mod 8 '
               'interpreted exactly; first bad: %s)'
               % (al, bad[:1]), bad[:4])
    bad = [k for k, v in cm.padding_table.items()
           if not (isinstance(v, bytes) and v == b'\0' * k)]
    ctx.ob(rule, 'marshal.padding', 'zero-bytes', not bad and all(
        k in cm.padding_table for k in range(8)),
        'padding table must map k to k NUL bytes for k in 0..7; bad keys %s'
        % bad)


# ---------------------------------------------------------------------------
# fixed-size types

def _fixed_enc(cm, fi, le):
    """-> list of (size_term, fmt, value_args, path) for return paths."""
    out = []
    for p in ret_paths(cm.paths(fi, le)):
        size, chunks = split_ret(p)
        if size is None or kind(chunks) != 'list' or len(chunks[1]) != 1 \
                or kind(chunks[1][0]) != 'item':
            out.append((size, None, None, p))
            continue
        pc = pack_call(chunks[1][0][1])
        if not pc:
            out.append((size, None, None, p))
            continue
        out.append((size, pc[0], pc[1], p))
    return out


def _fixed_dec(cm, fi, le):
    out = []
    for p in ret_paths(cm.paths(fi, le)):
        size, val = split_ret(p)
        ups = []
        if val is not None:
            for t in walk_term(val):
                u = unpack_call(t)
                if u:
                    ups.append(u)
        # the reads may also be in the trace (value assigned first)
        for c in p.calls():
            u = unpack_call(c)
            if u and u not in ups:
                ups.append(u)
        out.append((size, ups, val, p))
    return out


def r_fixed(ctx, cm, r_fmt_agree, r_size_agree, r_fmt_spec):
    for code in spec.FIXED:
        if code not in cm.enc or code not in cm.dec:
            continue
        efi, dfi = cm.enc[code], cm.dec[code]
        al, letter, fsize = spec.TYPES[code]
        for le, prefix in ORDERS:
            tag = '%s:%s' % (code, 'LE' if le else 'BE')
            encs = _fixed_enc(cm, efi, le)
            decs = _fixed_dec(cm, dfi, le)
            if not encs or not decs:
                raise AnalysisError('no return path in %s / %s'
                                    % (efi.qualname, dfi.qualname))
            efmts = {e[1] for e in encs}
            dfmts = {u[0] for d in decs for u in d[1]}
            esizes = {e[0] for e in encs}
            dsizes = {d[0] for d in decs}
            if r_fmt_agree:
                ok = len(efmts) == 1 and efmts == dfmts and None not in efmts
                ctx.ob(r_fmt_agree, efi.qualname, 'format:' + tag, ok,
                       'encoder packs %s, decoder unpacks %s for type %r'
                       % (sorted(map(str, efmts)), sorted(map(str, dfmts)),
                          code))
            if r_size_agree:
                sizes_ok = len(esizes) == 1 and esizes == dsizes and \
                    all(is_const(s) for s in esizes)
                calc = None
                if sizes_ok and len(efmts) == 1 and None not in efmts:
                    try:
                        calc = struct.calcsize(next(iter(efmts)))
                    except struct.error:
                        calc = None
                    sizes_ok = calc == next(iter(esizes))[1]
                ctx.ob(r_size_agree, efi.qualname, 'size:' + tag, sizes_ok,
                       'reported sizes: encoder %s, decoder %s, bytes packed '
                       '%s for type %r' % (
                           [term_str(s) for s in esizes],
                           [term_str(s) for s in dsizes], calc, code))
                # decoder reads at its own data / offset parameters
                for d in decs:
                    for fmt, data, off in d[1]:
                        ok = data == P(dfi, 1) and off == P(dfi, 2)
                        ctx.ob(r_size_agree, dfi.qualname, 'read-at:' + tag,
                               ok, 'decoder must read from (data, offset) '
                               'parameters, reads %s at %s'
                               % (term_str(data), term_str(off)),
                               nontrivial=False)
                # encoder encodes its value parameter
                for e in encs:
                    if e[2] is None:
                        continue
                    var = P(efi, 1)
                    if code == 'b':
                        ok = all(is_const(a) and a[1] in (0, 1)
                                 for a in e[2])
                        if ok and is_const(e[2][0]):
                            want_true = e[2][0][1] == 1
                            ok = any(c == var and pol == want_true
                                     for c, pol in e[3].cond)
                        msg = 'boolean must encode exactly 1 for a true ' \
                              'value and 0 otherwise'
                    elif code == 'h':
                        ok = True
                        msg = ''
                    else:
                        ok = len(e[2]) == 1 and e[2][0] == var
                        msg = 'encoder must pack its value parameter, packs '\
                              '%s' % [term_str(a) for a in e[2]]
                    if code != 'h':
                        ctx.ob(r_size_agree, efi.qualname, 'packs-value:' +
                               tag, ok, msg, nontrivial=False)
            if r_fmt_spec and code == 'b':
                ok = all(e[2] is not None and
                         all(is_const(a) and a[1] in (0, 1) for a in e[2])
                         for e in encs) and \
                    {e[2][0][1] for e in encs if e[2]} == {0, 1}
                ctx.ob(r_fmt_spec, efi.qualname, 'boolean-0-1:' + tag, ok,
                       'BOOLEAN must be encoded as exactly 0 or 1')
            if r_fmt_spec:
                want = prefix + letter
                ok = efmts == {want} and dfmts == {want}
                ctx.ob(r_fmt_spec, efi.qualname, 'spec-format:' + tag, ok,
                       'type %r in %s-endian must use struct format %r; '
                       'encoder uses %s, decoder uses %s' % (
                           code, 'little' if le else 'big', want,
                           sorted(map(str, efmts)), sorted(map(str, dfmts))))
                ok = all(is_const(s) and s[1] == fsize
                         for s in esizes | dsizes)
                ctx.ob(r_fmt_spec, efi.qualname, 'spec-size:' + tag, ok,
                       'type %r occupies %d bytes; reported %s' % (
                           code, fsize,
                           [term_str(s) for s in esizes | dsizes]),
                       nontrivial=False)


# ---------------------------------------------------------------------------
# string-like types

def _stringlike_enc(cm, fi, le):
    inl = [f.qualname for f in cm.enc.values()
           if f.qualname != fi.qualname and
           f.qualname not in ('marshal.marshal_array', 'marshal.marshal_struct',
                              'marshal.marshal_variant')]
    out = []
    for p in ret_paths(cm.paths(fi, le, inline=inl)):
        size, chunks = split_ret(p)
        rec = {'path': p, 'size': size, 'ok': False}
        if size is not None and kind(chunks) == 'list' and \
                len(chunks[1]) == 3 and \
                all(kind(x) == 'item' for x in chunks[1]):
            a, b, c = (x[1] for x in chunks[1])
            pc = pack_call(a)
            if pc and len(pc[1]) == 1:
                rec.update(ok=True, fmt=pc[0], lenarg=pc[1][0], payload=b,
                           term=c, chunks=chunks)
        out.append(rec)
    return out


def _stringlike_dec(cm, fi, le):
    out = []
    for p in ret_paths(cm.paths(fi, le)):
        size, val = split_ret(p)
        rec = {'path': p, 'size': size, 'ok': False, 'val': val}
        # value = decode(data[lo:hi], codec)
        sl = None
        codec = None
        if kind(val) == 'call' and val[3]:
            for a in val[3]:
                if kind(a) == 'sub' and kind(a[2]) == 'slice':
                    sl = a
                elif is_const(a) and isinstance(a[1], str):
                    codec = a[1]
        if sl is not None:
            ups = [unpack_call(t) for t in walk_term(size)]
            ups = [u for u in ups if u]
            if ups:
                u = ups[0]
                rec.update(ok=True, fmt=u[0], read_data=u[1], read_off=u[2],
                           slice_base=sl[1], lo=sl[2][1], hi=sl[2][2],
                           codec=codec, decode_fn=val[1])
                for t in walk_term(size):
                    if kind(t) == 'sub' and unpack_call(t[1]) == u:
                        rec['slen'] = t
        out.append(rec)
    return out


def r_stringlike(ctx, cm, r_agree, r_spec):
    for code, (plen, codec) in spec.STRINGLIKE.items():
        if code not in cm.enc or code not in cm.dec:
            continue
        efi, dfi = cm.enc[code], cm.dec[code]
        for le, prefix in ORDERS:
            tag = '%s:%s' % (code, 'LE' if le else 'BE')
            encs = _stringlike_enc(cm, efi, le)
            decs = _stringlike_dec(cm, dfi, le)
            if not encs or not decs:
                raise AnalysisError('no return path in codec of %r' % code)
            for e in encs:
                if not e['ok']:
                    ctx.ob(r_agree or r_spec, efi.qualname, 'shape:' + tag,
                           False, 'encoder of %r must return (size, [length '
                           'prefix, payload, NUL]); got %s' % (
                               code, term_str(e['path'].value)[:200]))
                    continue
                falsy = e['path'].state.falsy
                total = seq_len(e['chunks'][1], falsy)
                size_a = aff(e['size'], falsy)
                total = {strip_sites(k) if k != 1 else 1: v
                         for k, v in total.items()}
                if r_spec and not r_agree:
                    # the wire format places the NEXT value by this size: a
                    # size counted in characters instead of bytes misaligns
                    # whatever follows a non-ASCII string
                    ctx.ob(r_spec, efi.qualname, 'reported-size=bytes:' + tag,
                           total == size_a,
                           'encoder reports %s bytes but writes %s: the value '
                           'that follows is placed (and padded) by the '
                           'reported size' % (affine_str(size_a),
                                              affine_str(total)))
                if r_agree:
                    ctx.ob(r_agree, efi.qualname, 'chunks=size:' + tag,
                           total == size_a,
                           'encoder reports %s bytes but its chunks hold %s'
                           % (affine_str(size_a), affine_str(total)))
                    ok = aff_eq(e['lenarg'], ('call', 'len',
                                              ('builtin', 'len'),
                                              (e['payload'],), (), None))
                    ctx.ob(r_agree, efi.qualname, 'prefix=len(payload):' +
                           tag, ok, 'length prefix encodes %s, payload is %s'
                           % (term_str(e['lenarg']), term_str(e['payload'])))
                if r_spec:
                    ok = e['fmt'] == prefix + plen
                    ctx.ob(r_spec, efi.qualname, 'prefix-format:' + tag, ok,
                           'length prefix of %r must be %r, is %r'
                           % (code, prefix + plen, e['fmt']))
                    ok = e['term'] == C(b'\0')
                    ctx.ob(r_spec, efi.qualname, 'nul:' + tag, ok,
                           'payload of %r must be followed by one NUL byte, '
                           'found %s' % (code, term_str(e['term'])))
                    pl = e['payload']
                    ok = kind(pl) == 'call' and len(pl[3]) == 2 and \
                        pl[3][1] == C(codec) and \
                        contains(pl[3][0], lambda x: x == P(efi, 1))
                    ctx.ob(r_spec, efi.qualname, 'codec:' + tag, ok,
                           'payload of %r must be the value encoded as %s, '
                           'is %s' % (code, codec, term_str(pl)))
                    if code == 'o':
                        ok = any(c[1] == 'marshal.validateObjectPath' and
                                 c[3] and c[3][0] == P(efi, 1)
                                 for c in e['path'].calls())
                        ctx.ob(r_spec, efi.qualname, 'validates-path:' + tag,
                               ok, 'object paths must pass '
                               'validateObjectPath before being encoded')
            for d in decs:
                if not d['ok']:
                    ctx.ob(r_agree or r_spec, dfi.qualname, 'shape:' + tag,
                           False, 'decoder of %r must return (size, decoded '
                           'slice); got %s' % (
                               code, term_str(d['path'].value)[:200]))
                    continue
                data, off = P(dfi, 1), P(dfi, 2)
                psize = struct.calcsize(d['fmt'])
                slen = d.get('slen')
                if r_agree:
                    ok = d['read_data'] == data and d['read_off'] == off \
                        and d['slice_base'] == data
                    ctx.ob(r_agree, dfi.qualname, 'read-at:' + tag, ok,
                           'decoder must read the length at (data, offset) '
                           'and slice data')
                    ok = slen is not None and \
                        aff_eq(d['lo'], ('binop', '+', off, C(psize))) and \
                        aff_eq(d['hi'], ('binop', '+', d['lo'], slen))
                    ctx.ob(r_agree, dfi.qualname, 'slice:' + tag, ok,
                           'payload slice must be [offset+%d : offset+%d+len]'
                           '; is [%s : %s]' % (psize, psize,
                                               term_str(d['lo']),
                                               term_str(d['hi'])))
                    ok = slen is not None and aff_eq(
                        d['size'], ('binop', '+', slen, C(psize + 1)))
                    ctx.ob(r_agree, dfi.qualname, 'size:' + tag, ok,
                           'decoder must report %d + len + 1 bytes, reports '
                           '%s' % (psize, term_str(d['size'])))
                if r_spec:
                    # the same clause as a statement about the wire format:
                    # prefix, <len> BYTES of payload, one NUL
                    ok = slen is not None and aff_eq(
                        d['size'], ('binop', '+', slen, C(psize + 1)))
                    ctx.ob(r_spec, dfi.qualname, 'framed-size:' + tag, ok,
                           'a %r value occupies %d + <length prefix> + 1 '
                           'bytes on the wire (the prefix counts BYTES of '
                           'the encoding, not characters); the decoder '
                           'reports %s' % (code, psize,
                                           term_str(d['size'])))
                if r_spec:
                    ok = d['fmt'] == prefix + plen
                    ctx.ob(r_spec, dfi.qualname, 'prefix-format:' + tag, ok,
                           'length prefix of %r must be read as %r, is %r'
                           % (code, prefix + plen, d['fmt']))
                    ctx.ob(r_spec, dfi.qualname, 'codec:' + tag,
                           d['codec'] == codec,
                           'payload of %r must be decoded as %s, is %r'
                           % (code, codec, d['codec']), nontrivial=False)
            # sibling agreement of formats / constants
            if r_agree:
                ef = {e['fmt'] for e in encs if e['ok']}
                df = {d['fmt'] for d in decs if d['ok']}
                ctx.ob(r_agree, efi.qualname, 'format:' + tag,
                       len(ef) == 1 and ef == df,
                       'length prefix formats differ: encoder %s decoder %s'
                       % (sorted(ef), sorted(df)))
                ec = {e['payload'][3][1] for e in encs if e['ok'] and
                      kind(e['payload']) == 'call' and len(e['payload'][3])
                      == 2}
                dc = {C(d['codec']) for d in decs if d['ok']}
                ctx.ob(r_agree, efi.qualname, 'codec:' + tag, ec == dc,
                       'payload codecs differ: encoder %s decoder %s' % (
                           [term_str(x) for x in ec],
                           [term_str(x) for x in dc]), nontrivial=False)


# ---------------------------------------------------------------------------
# accumulating encoders / decoders: dispatch discipline

def _is_table(t, cm, which):
    """Is t the marshallers / unmarshallers / pad table?"""
    if which == 'pad':
        return t == ('global', 'marshal', 'pad')
    tbl = cm.enc if which == 'enc' else cm.dec
    if kind(t) == 'dict':
        keys = {k[1] for k, _ in t[1] if is_const(k)}
        vals = {v[1] for _, v in t[1] if kind(v) == 'func'}
        return keys == set(tbl) and vals == {f.qualname
                                             for f in tbl.values()}
    return t == ('global', 'marshal',
                 'marshallers' if which == 'enc' else 'unmarshallers')


def walk_segments(trace, falsy_of_path, pre=()):
    """Yield (events_before, event, falsy) for every event, descending into
    loop bodies (events_before = events of the enclosing path(s) that precede
    it)."""
    before = list(pre)
    for ev in trace:
        yield before, ev, falsy_of_path
        if ev[0] == 'loop':
            for bp in ev[4]:
                for x in walk_segments(bp.trace, bp.state.falsy, before):
                    yield x
        before = before + [ev]


def dispatch_sites(cm, path, which):
    """All dispatch calls TABLE[K](...) on a path (deep), with the events
    preceding each and the falsy facts of its (sub)path."""
    out = []
    for before, ev, falsy in walk_segments(path.trace, path.state.falsy):
        if ev[0] != 'call':
            continue
        c = ev[1]
        fn = c[2]
        if kind(fn) == 'sub' and _is_table(fn[1], cm, which):
            out.append((before, c, falsy))
    return out


def check_dispatch(ctx, cm, rule, fi, le, which, path, where_tag):
    """D5: every dispatch through the table is preceded by pad[K](pos) with
    the same key; the position handed to the callee is pos + len(padding);
    byte order and descriptor list are threaded."""
    n = 0
    for before, c, falsy in dispatch_sites(cm, path, which):
        n += 1
        K = c[2][2]
        args = c[3]
        if len(args) < 5:
            ctx.ob(rule, fi.qualname, 'dispatch-arity:' + where_tag, False,
                   'dispatch through the %s table passes %d arguments, the '
                   'entries take 5' % (which, len(args)))
            continue
        pos = args[2]
        pads = [e[1] for e in before if e[0] == 'call' and
                kind(e[1][2]) == 'sub' and _is_table(e[1][2][1], cm, 'pad')]
        same = [p for p in pads if strip_sites(p[2][2]) == strip_sites(K)]
        ok = False
        detail = {'key': term_str(K), 'position': term_str(pos),
                  'pads': [term_str(p) for p in pads]}
        if same:
            pc = same[-1]
            if len(pc[3]) == 1:
                want = ('binop', '+', pc[3][0], ('len', pc))
                ok = aff_eq(pos, want, falsy)
                detail['expected'] = term_str(want)
        ctx.ob(rule, fi.qualname, 'pad-before-dispatch:' + where_tag, ok,
               'value dispatched on key %s at position %s is not preceded by '
               'pad[same key](position) with the padding added to the '
               'position' % (term_str(K), term_str(pos)), detail)
        ok = args[3] == C(le)
        ctx.ob(rule, fi.qualname, 'byte-order-threaded:' + where_tag, ok,
               'dispatch must pass the byte order on; passes %s'
               % term_str(args[3]), nontrivial=False)
    return n


def check_threading(ctx, cm, rule, fi, le, path, where_tag):
    """D7: every call into the codec (drivers, direct encoder/decoder calls)
    passes the byte order it was given."""
    codec_funcs = {f.qualname for f in cm.enc.values()} | \
        {f.qualname for f in cm.dec.values()} | \
        {'marshal.marshal', 'marshal.unmarshal'}
    for c in path.calls():
        if c[1] in codec_funcs:
            callee = ctx.prog.func(c[1])
            ps = callee.params()
            bound = dict(zip(ps, c[3]))
            bound.update(dict(c[4]))
            got = bound.get('lendian')
            ok = got == C(le)
            ctx.ob(rule, fi.qualname,
                   'byte-order-threaded:%s->%s:%s' % (
                       where_tag, callee.name, 'LE' if le else 'BE'), ok,
                   'call to %s must pass the byte order on; passes %s' % (
                       c[1], term_str(got) if got else 'nothing (default '
                                                       'little-endian)'))


def loops_of(path):
    return [ev for ev in path.trace if ev[0] == 'loop']


def _chunks_total(chunks, falsy):
    t = seq_len(chunks[1], falsy)
    return {(strip_sites(k) if k != 1 else 1): v for k, v in t.items()}


def r_encoder_accounting(ctx, cm, rule, fi, le, tag):
    """D4: on every return path the chunk list's total length equals the
    reported size."""
    n = 0
    for p in ret_paths(cm.paths(fi, le)):
        size, chunks = split_ret(p)
        if size is None or kind(chunks) != 'list':
            if kind(p.value) == 'call':
                continue        # pure delegation (struct)
            ctx.ob(rule, fi.qualname, 'returns-size-and-chunks:' + tag,
                   False, 'encoder must return (size, chunk list); returns '
                   '%s' % term_str(p.value)[:200])
            continue
        falsy = p.state.falsy
        total = _chunks_total(chunks, falsy)
        size_a = aff(size, falsy)
        n += 1
        ctx.ob(rule, fi.qualname, 'chunks=size:%s' % tag,
               total == size_a,
               'reported size %s differs from the bytes in the chunk list %s'
               % (affine_str(size_a), affine_str(total)),
               {'cond': [(term_str(c)[:80], pol) for c, pol in p.cond]})
    return n


def signature_length_limit(ctx, cm, rule):
    """A SIGNATURE may be up to 255 bytes long (one length byte).  An encoder
    path that rejects a value on a test of its length must not reject any
    length in 0..255 (an off-by-one `>= 255` refuses the longest valid
    signature - reachable through a variant whose inferred signature has
    exactly that length)."""
    from ..sym import subst_fold, truth
    fi = cm.enc['g']
    var = P(fi, 1)
    lens = ('call', 'len', ('builtin', 'len'), (var,), (), None)
    n = 0
    for le in (True, False):
        for p in cm.paths(fi, le):
            if p.outcome != 'raise' or any(
                    e[0] == 'exc-edge' for e in p.trace):
                continue
            # len(<the value or its encoded form>)
            is_len = lambda x: kind(x) == 'call' and x[1] == 'len' and \
                len(x[3]) == 1 and contains(x[3][0], lambda y: y == var)
            conds = [(strip_sites(c), pol) for c, pol in p.cond
                     if contains(c, is_len)]
            if not conds:
                continue
            n += 1
            bad = None
            for k in (0, 1, 254, 255):
                feas = True
                for c, pol in conds:
                    env = {t: C(k) for t in walk_term(c) if is_len(t)}
                    tv = truth(subst_fold(c, env))
                    if tv is None or tv != pol:
                        feas = False
                if feas:
                    bad = k
            ctx.ob(rule, fi.qualname, 'rejects-only-over-255:%s'
                   % ('LE' if le else 'BE'), bad is None,
                   'the signature encoder raises for a signature of %s '
                   'byte(s), which is within the 255-byte limit of the type'
                   % bad)
    return n
