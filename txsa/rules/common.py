"""Rules shared by several properties (each is reported under the rule id the
calling property gives it)."""
import ast

from ..loader import AnalysisError


CLASS_INTROSPECTION = ('__mro__', '__dict__', '__bases__', '__subclasses__')


def _class_valued(node, class_names):
    if isinstance(node, ast.Attribute) and node.attr == '__class__':
        return True
    if isinstance(node, ast.Call) and isinstance(node.func, ast.Name) and \
            node.func.id == 'type' and len(node.args) == 1:
        return True
    if isinstance(node, ast.Name) and node.id in class_names:
        return True
    return False


def _class_names(fn):
    """Local names that hold a class: `cls`, loop variables over an
    `__mro__`, names assigned from X.__class__ / type(X)."""
    names = set()
    args = fn.args.posonlyargs + fn.args.args
    if args and args[0].arg in ('cls', 'klass'):
        names.add(args[0].arg)
    for node in ast.walk(fn):
        if isinstance(node, (ast.For, ast.comprehension)):
            it = node.iter
            if any(isinstance(x, ast.Attribute) and x.attr == '__mro__'
                   for x in ast.walk(it)):
                for t in ast.walk(node.target):
                    if isinstance(t, ast.Name):
                        names.add(t.id)
        if isinstance(node, ast.Assign) and len(node.targets) == 1 and \
                isinstance(node.targets[0], ast.Name) and \
                _class_valued(node.value, ()):
            names.add(node.targets[0].id)
    return names


def _depends_on_class(prog, fi, depth=0, seen=None):
    seen = seen if seen is not None else set()
    if fi.qualname in seen or depth > 3:
        return False
    seen.add(fi.qualname)
    for node in ast.walk(fi.node):
        if isinstance(node, ast.Attribute) and \
                node.attr in CLASS_INTROSPECTION:
            return True
        if isinstance(node, ast.Call) and \
                isinstance(node.func, ast.Attribute) and \
                isinstance(node.func.value, ast.Name) and \
                node.func.value.id == 'self' and fi.cls is not None:
            callee = fi.cls.methods.get(node.func.attr)
            if callee is not None and _depends_on_class(prog, callee,
                                                        depth + 1, seen):
                return True
    return False


def class_memo_stores(tree_funcs):
    """(fn node, attr, lineno) for every `<class-valued>.A = v` /
    setattr(<class-valued>, 'A', v)."""
    out = []
    for fn in tree_funcs:
        cn = _class_names(fn)
        for node in ast.walk(fn):
            if isinstance(node, ast.Assign):
                for t in node.targets:
                    if isinstance(t, ast.Attribute) and \
                            _class_valued(t.value, cn):
                        out.append((fn, t.attr, node.lineno))
            if isinstance(node, ast.Call) and \
                    isinstance(node.func, ast.Name) and \
                    node.func.id == 'setattr' and len(node.args) == 3 and \
                    isinstance(node.args[1], ast.Constant) and \
                    _class_valued(node.args[0], cn):
                out.append((fn, node.args[1].value, node.lineno))
    return out


def inherited_reads(tree, attr):
    """Reads of `attr` that follow inheritance: E.attr (Load),
    getattr(E, 'attr'...), hasattr(E, 'attr') - anything but a lookup in a
    __dict__ / vars()."""
    out = []
    for node in ast.walk(tree):
        if isinstance(node, ast.Attribute) and node.attr == attr and \
                isinstance(node.ctx, ast.Load):
            out.append((node.lineno, ast.unparse(node)))
        if isinstance(node, ast.Call) and isinstance(node.func, ast.Name) \
                and node.func.id in ('getattr', 'hasattr') and \
                len(node.args) >= 2 and \
                isinstance(node.args[1], ast.Constant) and \
                node.args[1].value == attr:
            out.append((node.lineno, ast.unparse(node)[:60]))
    return out


def class_memo_not_inherited(ctx, rule_id, modules, consequence):
    """A per-class memo (a value computed from the class itself and stored
    ON the class) must be looked up in the class's own __dict__: ordinary
    attribute lookup follows inheritance, so a subclass finds the memo of
    its base class and never computes its own."""
    prog = ctx.prog
    n = 0
    for fi in prog.all_funcs.values():
        if fi.module.name not in modules:
            continue
        for fn, attr, line in class_memo_stores([fi.node]):
            if fn is not fi.node:
                continue
            if not _depends_on_class(prog, fi):
                continue
            n += 1
            bad = []
            for m in prog.modules.values():
                for ln, txt in inherited_reads(m.tree, attr):
                    bad.append('%s:%d %s' % (m.relpath, ln, txt))
            ctx.ob(rule_id, fi.qualname, 'class-memo-own-dict:%s' % attr,
                   not bad,
                   'the per-class memo %s (stored on the class at line %d, '
                   'computed from the class) is read through inheriting '
                   'attribute lookup (%s): a subclass finds the memo of its '
                   'base class and never builds its own (%s)'
                   % (attr, line, '; '.join(bad[:3]), consequence),
                   loc='%s:%d' % (fi.module.relpath, line))
            # ... and what is filed in it belongs to the CLASS: a value
            # taken from the instance that happened to build the memo
            # (`getattr(self, name)` - a method bound to it) is served to
            # every other instance of the class
            stored = [nd.value.id for nd in ast.walk(fi.node)
                      if isinstance(nd, ast.Assign) and
                      isinstance(nd.value, ast.Name) and any(
                          isinstance(t, ast.Attribute) and t.attr == attr
                          for t in nd.targets)]
            fillers = [fi]
            for nd in ast.walk(fi.node):
                if isinstance(nd, ast.Call) and \
                        isinstance(nd.func, ast.Attribute) and \
                        isinstance(nd.func.value, ast.Name) and \
                        nd.func.value.id == 'self' and fi.cls is not None and \
                        any(isinstance(a, ast.Name) and a.id in stored
                            for a in nd.args):
                    h = prog.lookup_method(fi.cls, nd.func.attr)
                    if h is not None and h not in fillers:
                        fillers.append(h)
            held = []
            for h in fillers:
                ps = h.params()
                me = ps[0] if ps else 'self'
                for nd in ast.walk(h.node):
                    if isinstance(nd, ast.Assign) and any(
                            isinstance(t, ast.Subscript)
                            for t in nd.targets) and any(
                            isinstance(x, ast.Name) and x.id == me
                            for x in ast.walk(nd.value)):
                        held.append('%s:%d %s' % (
                            h.module.relpath, nd.lineno,
                            ast.unparse(nd.value)[:50]))
            ctx.ob(rule_id, fi.qualname,
                   'class-memo-holds-no-instance:%s' % attr, not held,
                   'what is filed in the per-class memo %s is taken from the '
                   'instance that builds it (%s): every other instance of '
                   'the class is then served the first one\'s bound method '
                   '/ value (%s)' % (attr, '; '.join(held[:2]), consequence),
                   loc='%s:%d' % (fi.module.relpath, line))
    _memo_control()
    ctx.extra['class_memos_checked:%s' % rule_id] = n
    return n


def _memo_control():
    import os
    fx = os.path.join(os.path.dirname(os.path.dirname(os.path.dirname(
        os.path.abspath(__file__)))), 'fixtures', 'class_memo_inherited.py')
    try:
        tree = ast.parse(open(fx).read())
    except OSError:
        raise AnalysisError('positive-control fixture missing: %s' % fx)
    fns = [n for n in ast.walk(tree) if isinstance(n, ast.FunctionDef)]
    stores = class_memo_stores(fns)
    if not stores or not any(inherited_reads(tree, a) for _, a, _ in stores):
        raise AnalysisError('positive control failed: the class-memo rule '
                            'does not match its fixture')


def _evidently_str(e, cls, prog):
    if isinstance(e, ast.Constant):
        return isinstance(e.value, str)
    if isinstance(e, ast.JoinedStr):
        return True
    if isinstance(e, ast.Call):
        f = e.func
        if isinstance(f, ast.Name) and f.id in ('str', 'repr', 'format'):
            return True
        if isinstance(f, ast.Attribute) and f.attr in (
                'format', 'join', 'decode', 'strip', 'lower', 'upper',
                'replace', 'title'):
            return True
        return False
    if isinstance(e, ast.BinOp) and isinstance(e.op, (ast.Add, ast.Mod)):
        return _evidently_str(e.left, cls, prog)
    if isinstance(e, ast.Attribute) and isinstance(e.value, ast.Name) and \
            e.value.id == 'self' and cls is not None:
        for k in prog.mro(cls):
            v = k.attrs.get(e.attr)
            if v is not None:
                return isinstance(v, ast.Constant) and \
                    isinstance(v.value, str)
        return None            # unknown: set by a constructor
    if isinstance(e, ast.IfExp):
        a = _evidently_str(e.body, cls, prog)
        b = _evidently_str(e.orelse, cls, prog)
        return False if (a is False or b is False) else (
            True if a and b else None)
    return None


def failure_text_is_text(ctx, rule_id, consequence):
    """The handlers that close a connection on a protocol failure first turn
    the exception into text (log.msg('...' + str(e))).  `__str__` of the
    package's exception classes must therefore return a string on every
    path: `return self.args and str(self.args[0])` returns the EMPTY TUPLE
    for an exception raised without arguments, str(e) raises TypeError, and
    the statement after it - loseConnection() - never runs."""
    prog = ctx.prog
    n = 0
    for c in prog.all_classes.values():
        if c.module.name != 'error':
            continue
        for mname in ('__str__', '__repr__'):
            f = c.methods.get(mname)
            if f is None:
                continue
            for node in prog._iter_scope(f.node):
                if not (isinstance(node, ast.Return) and
                        node.value is not None):
                    continue
                n += 1
                v = node.value
                bad = None
                if isinstance(v, ast.BoolOp):
                    # every operand but the last may be the result
                    for op in v.values[:-1] if isinstance(v.op, ast.And) \
                            else v.values:
                        if _evidently_str(op, c, prog) is not True and not (
                                isinstance(v.op, ast.Or) and
                                _evidently_str(op, c, prog) is None):
                            bad = ast.unparse(op)
                            break
                elif _evidently_str(v, c, prog) is False:
                    bad = ast.unparse(v)
                ctx.ob(rule_id, f.qualname, 'text-of-a-failure-is-text',
                       bad is None,
                       '%s can return %s, which is not a string: str(e) '
                       'raises TypeError inside the handler that reports the '
                       'failure (%s)' % (f.qualname, bad, consequence),
                       nontrivial=bad is not None)
    ctx.extra['exception_text_methods'] = n


def helpers_of(prog, fi):
    """The functions `fi` was split into: methods of its class called on
    `self` and functions of its module called by name that did not exist when
    the rules were written (transitively, callees first)."""
    import ast
    known = prog.known_funcs() or frozenset()
    seen, order = {fi.qualname}, []

    def visit(f):
        for n in ast.walk(f.node):
            if not isinstance(n, ast.Call):
                continue
            g = None
            if isinstance(n.func, ast.Attribute) and \
                    isinstance(n.func.value, ast.Name) and \
                    n.func.value.id == 'self' and f.cls is not None:
                g = prog.lookup_method(f.cls, n.func.attr)
            elif isinstance(n.func, ast.Name):
                g = f.module.funcs.get(n.func.id)
            if g is not None and g.qualname not in known and \
                    g.qualname not in seen and g.parent is None:
                seen.add(g.qualname)
                visit(g)
                order.append(g)
    visit(fi)
    return order
