"""Common clause DM: module-level state written at run time is a sound memo.

On the pinned tree no function writes module-level state at all: the tables of
marshal.py / message.py / router.py are filled while the module is imported.
A function that starts to write one (a cache of packers, of validated names, of
split signatures ...) makes the result of a call depend on the calls BEFORE it
- exactly what a property quantified over "every input / order / history"
forbids and what a test that runs each case once in a fresh table never sees.
The clause accepts such a memo only if it cannot change any answer:

  K  key-complete      the key names every parameter and every variable of an
                       enclosing function that the remembered value (for a
                       set: the work the membership skips) is computed from;
  R  nothing remembered on a failing path: no `raise`, and no call made for
                       its effect (a validator), follows the store;
  M  the remembered object is not changed after it is stored, nor through
                       what a lookup returns (callers share it);
  G  a function wrapped by functools.lru_cache / cache is not a generator
                       (the cached generator is exhausted by its first user).

A memo is reported for a property when its writer is reachable from the
property's entry points (scope.PROP_ROOTS) through resolved call edges; a
writer nested in a decorator counts for every function the decorator wraps.
"""
import ast
import os
import re

from .. import callgraph as CG
from ..loader import AnalysisError, Program
from ..scope import PROP_ROOTS

CONTAINER_CALLS = ('dict', 'list', 'set', 'OrderedDict', 'defaultdict',
                   'WeakValueDictionary', 'WeakKeyDictionary', 'deque')
STORE_METHODS = ('add', 'append', 'setdefault', 'update', 'insert', 'extend',
                 'appendleft')
LOOKUP_METHODS = ('get', 'pop', 'setdefault')
MUTATORS = ('append', 'extend', 'insert', 'add', 'update', 'pop', 'remove',
            'clear', 'discard', 'popitem', 'sort', 'reverse', 'setdefault',
            'appendleft', 'popleft')


def module_containers(tree):
    out = {}
    for st in tree.body:
        tgt = None
        if isinstance(st, ast.Assign) and len(st.targets) == 1 and \
                isinstance(st.targets[0], ast.Name):
            tgt, v = st.targets[0].id, st.value
        elif isinstance(st, ast.AnnAssign) and st.value is not None and \
                isinstance(st.target, ast.Name):
            tgt, v = st.target.id, st.value
        if tgt is None:
            continue
        if isinstance(v, (ast.Dict, ast.List, ast.Set)) or (
                isinstance(v, ast.Call) and (
                    (isinstance(v.func, ast.Name) and
                     v.func.id in CONTAINER_CALLS) or
                    (isinstance(v.func, ast.Attribute) and
                     v.func.attr in CONTAINER_CALLS))):
            out[tgt] = st.lineno
    return out


def runtime_memo_names(tree):
    """Module-level containers that are EMPTY when created and stored into
    by a function."""
    empty = set()
    for st in tree.body:
        if isinstance(st, ast.Assign) and len(st.targets) == 1 and \
                isinstance(st.targets[0], ast.Name):
            v = st.value
            if (isinstance(v, (ast.Dict, ast.List, ast.Set)) and
                    not (getattr(v, 'keys', None) or
                         getattr(v, 'elts', None))) or (
                    isinstance(v, ast.Call) and not v.args and
                    not v.keywords and (
                        (isinstance(v.func, ast.Name) and
                         v.func.id in CONTAINER_CALLS) or
                        (isinstance(v.func, ast.Attribute) and
                         v.func.attr in CONTAINER_CALLS))):
                empty.add(st.targets[0].id)
    if not empty:
        return set()
    # written at import time as well (a table filled by module-level code)?
    for st in tree.body:
        for n in ast.walk(st) if not isinstance(
                st, (ast.FunctionDef, ast.ClassDef, ast.AsyncFunctionDef)) \
                else []:
            if isinstance(n, ast.Subscript) and \
                    isinstance(n.ctx, ast.Store) and \
                    isinstance(n.value, ast.Name):
                empty.discard(n.value.id)
            if isinstance(n, ast.Call) and \
                    isinstance(n.func, ast.Attribute) and \
                    isinstance(n.func.value, ast.Name) and \
                    n.func.attr in STORE_METHODS:
                empty.discard(n.func.value.id)
    written = set()
    for fn, chain in _fn_chains(tree):
        shadow = set(_params(fn)) | set(_local_defs(fn))
        for n in _own_nodes(fn):
            if isinstance(n, ast.Subscript) and \
                    isinstance(n.ctx, ast.Store) and \
                    isinstance(n.value, ast.Name) and \
                    n.value.id in empty and n.value.id not in shadow:
                written.add(n.value.id)
            if isinstance(n, ast.Call) and \
                    isinstance(n.func, ast.Attribute) and \
                    isinstance(n.func.value, ast.Name) and \
                    n.func.value.id in empty and \
                    n.func.value.id not in shadow and \
                    n.func.attr in STORE_METHODS:
                written.add(n.func.value.id)
    return written


def _own_nodes(fn):
    """Nodes of fn's own scope (nested function bodies excluded)."""
    stack = list(ast.iter_child_nodes(fn))
    while stack:
        n = stack.pop()
        yield n
        if isinstance(n, (ast.FunctionDef, ast.AsyncFunctionDef, ast.Lambda)):
            continue
        stack.extend(ast.iter_child_nodes(n))


def _names(expr):
    return {n.id for n in ast.walk(expr) if isinstance(n, ast.Name)}


def _params(fn):
    a = fn.args
    ps = [x.arg for x in a.posonlyargs + a.args + a.kwonlyargs]
    if a.vararg:
        ps.append(a.vararg.arg)
    if a.kwarg:
        ps.append(a.kwarg.arg)
    return ps


def _local_defs(fn):
    """name -> set of names read on the right-hand sides that define it
    (flow-insensitive)."""
    defs = {}

    def tnames(t):
        return [n.id for n in ast.walk(t) if isinstance(n, ast.Name)]
    for n in _own_nodes(fn):
        if isinstance(n, ast.Assign):
            rhs = _names(n.value)
            for t in n.targets:
                if isinstance(t, (ast.Name, ast.Tuple, ast.List)):
                    for nm in tnames(t):
                        defs.setdefault(nm, set()).update(rhs)
        elif isinstance(n, ast.AugAssign) and isinstance(n.target, ast.Name):
            defs.setdefault(n.target.id, set()).update(_names(n.value))
        elif isinstance(n, (ast.For, ast.comprehension)):
            for nm in tnames(n.target):
                defs.setdefault(nm, set()).update(_names(n.iter))
        elif isinstance(n, ast.NamedExpr):
            defs.setdefault(n.target.id, set()).update(_names(n.value))
        elif isinstance(n, ast.withitem) and n.optional_vars is not None:
            for nm in tnames(n.optional_vars):
                defs.setdefault(nm, set()).update(_names(n.context_expr))
    return defs


def _closure(names, defs):
    out = set()
    work = list(names)
    while work:
        n = work.pop()
        if n in out:
            continue
        out.add(n)
        work.extend(defs.get(n, ()))
    return out


class Memo:
    def __init__(self, module, name, line):
        self.module = module
        self.name = name
        self.line = line
        self.writers = []      # (fn node, chain of enclosing fn nodes)


def _fn_chains(tree):
    """(fn node, [enclosing fn nodes outermost first]) for every function."""
    out = []

    def rec(node, chain):
        for ch in ast.iter_child_nodes(node):
            if isinstance(ch, (ast.FunctionDef, ast.AsyncFunctionDef)):
                out.append((ch, list(chain)))
                rec(ch, chain + [ch])
            elif isinstance(ch, ast.Lambda):
                rec(ch, chain)
            else:
                rec(ch, chain)
    rec(tree, [])
    return out


def _is_memo_ref(node, names):
    return isinstance(node, ast.Name) and node.id in names


def analyse_function(fn, chain, memos, decorated_count, closure_memos=None):
    """-> (events, findings).  events: list of (memo name, kind, line);
    findings: list of (memo name, rule, line, text)."""
    findings = []
    events = []
    own_params = set(_params(fn))
    defs = _local_defs(fn)
    # variables of enclosing functions (free variables of fn)
    outer = set()
    for enc in chain:
        outer.update(_params(enc))
        outer.update(_local_defs(enc).keys())
    shadow = set(defs) | own_params
    outer -= shadow
    relevant = own_params | outer
    nodes = list(_own_nodes(fn))
    # names declared global and rebound here
    globs = set()
    for n in nodes:
        if isinstance(n, ast.Global):
            globs.update(n.names)
    stores = []      # (memo, key expr or None, value expr or None, line, obj names)
    lookups = []     # (memo, bound names, line)
    for n in nodes:
        if isinstance(n, ast.Assign):
            for t in n.targets:
                if isinstance(t, ast.Subscript) and \
                        _is_memo_ref(t.value, memos):
                    objs = set()
                    if isinstance(n.value, ast.Name):
                        objs.add(n.value.id)
                    for t2 in n.targets:
                        if isinstance(t2, ast.Name):
                            objs.add(t2.id)
                        elif isinstance(t2, (ast.Tuple, ast.List)):
                            objs.update(x.id for x in t2.elts
                                        if isinstance(x, ast.Name))
                    stores.append((t.value.id, t.slice, n.value, n.lineno,
                                   objs))
                if isinstance(t, ast.Name) and t.id in globs:
                    stores.append((t.id, None, n.value, n.lineno, set()))
            v = n.value
            src = None
            if isinstance(v, ast.Subscript) and _is_memo_ref(v.value, memos):
                src = v.value.id
            if isinstance(v, ast.Call) and \
                    isinstance(v.func, ast.Attribute) and \
                    _is_memo_ref(v.func.value, memos) and \
                    v.func.attr in LOOKUP_METHODS:
                src = v.func.value.id
            if src is not None:
                bound = set()
                for t in n.targets:
                    bound.update(x.id for x in ast.walk(t)
                                 if isinstance(x, ast.Name) and
                                 x.id not in memos)
                lookups.append((src, bound, n.lineno))
        if isinstance(n, ast.AugAssign):
            if isinstance(n.target, ast.Subscript) and \
                    _is_memo_ref(n.target.value, memos):
                stores.append((n.target.value.id, n.target.slice, n.value,
                               n.lineno, set()))
            if isinstance(n.target, ast.Name) and (
                    n.target.id in globs or
                    (n.target.id in memos and n.target.id not in shadow)):
                stores.append((n.target.id, None, n.value, n.lineno, set()))
        if isinstance(n, ast.Call) and isinstance(n.func, ast.Attribute) \
                and _is_memo_ref(n.func.value, memos) and \
                n.func.value.id not in shadow:
            m = n.func.value.id
            if n.func.attr in STORE_METHODS and n.args:
                if n.func.attr == 'setdefault' and len(n.args) == 2:
                    stores.append((m, n.args[0], n.args[1], n.lineno, set()))
                elif n.func.attr == 'insert' and len(n.args) == 2:
                    stores.append((m, n.args[1], None, n.lineno, set()))
                else:
                    stores.append((m, n.args[0], None, n.lineno, set()))
        if isinstance(n, (ast.For, ast.comprehension)):
            it = n.iter
            base = it
            if isinstance(it, ast.Call) and \
                    isinstance(it.func, ast.Attribute) and \
                    it.func.attr in ('values', 'items'):
                base = it.func.value
            if _is_memo_ref(base, memos):
                lookups.append((base.id, {x.id for x in ast.walk(n.target)
                                          if isinstance(x, ast.Name)},
                                getattr(n, 'lineno', 0)))
    if not stores and not lookups:
        return events, findings
    all_read = set()
    for n in nodes:
        if isinstance(n, ast.Name) and isinstance(n.ctx, ast.Load):
            all_read.add(n.id)
    for memo, key, value, line, objs in stores:
        events.append((memo, 'store', line))
        # K ----------------------------------------------------------------
        kdeps = _closure(_names(key), defs) & relevant if key is not None \
            else set()
        if value is not None:
            vdeps = _closure(_names(value), defs) & relevant
        else:
            # a set / list of "seen" keys: membership skips the whole body
            vdeps = _closure(all_read, defs) & relevant
        missing = vdeps - kdeps
        if closure_memos and memo in closure_memos:
            enc = closure_memos[memo]
            missing -= set(_params(enc)) | set(_local_defs(enc))
        # the function a decorator wraps: harmless while the decorator (and
        # with it the table) serves exactly one function
        if missing and chain and missing <= set(_params(chain[-1])) and \
                decorated_count.get(chain[-1].name, 0) == 1 and \
                all(m_ in _decorated_param(chain[-1]) for m_ in missing):
            missing = set()
        if missing:
            findings.append((memo, 'key-complete', line,
                             'the value remembered in %s at line %d is '
                             'computed from %s, but the key (%s) does not '
                             'contain %s: a later call with a different %s '
                             'gets the answer of the earlier one'
                             % (memo, line, ', '.join(sorted(vdeps)),
                                ast.unparse(key) if key is not None
                                else 'none',
                                ', '.join(sorted(missing)),
                                '/'.join(sorted(missing)))))
        # R ----------------------------------------------------------------
        bp = _branch_paths(fn)
        store_bp = None
        for n in nodes:
            if getattr(n, 'lineno', 0) == line and id(n) in bp and \
                    isinstance(n, (ast.Assign, ast.AugAssign, ast.Expr)):
                store_bp = bp[id(n)]
        for n in nodes:
            ln = getattr(n, 'lineno', 0)
            if ln <= line:
                continue
            if store_bp is not None and id(n) in bp and \
                    _exclusive(store_bp, bp[id(n)]):
                continue        # the other arm of an if: never runs after it
            if isinstance(n, ast.Raise):
                findings.append((memo, 'nothing-remembered-on-failure', line,
                                 '%s is written at line %d before the '
                                 '`raise` at line %d: the failing input is '
                                 'remembered, and the next call with it '
                                 'skips the check' % (memo, line, ln)))
                break
            if isinstance(n, ast.Expr) and isinstance(n.value, ast.Call) \
                    and not (isinstance(n.value.func, ast.Attribute) and
                             _is_memo_ref(n.value.func.value, memos)):
                f = n.value.func
                if isinstance(f, ast.Name) and f.id in relevant:
                    findings.append((
                        memo, 'nothing-remembered-on-failure', line,
                        '%s is written at line %d before %s(...) is called '
                        'for its effect at line %d: if that call raises, '
                        'the input stays remembered' % (memo, line, f.id,
                                                        ln)))
                    break
        # M ----------------------------------------------------------------
        for obj in objs:
            for n in nodes:
                ln = getattr(n, 'lineno', 0)
                if ln < line:
                    continue
                if _mutates(n, obj) and ln >= line and not (
                        isinstance(n, ast.Assign) and ln == line):
                    findings.append((
                        memo, 'remembered-object-not-changed', line,
                        'the object stored in %s at line %d is changed '
                        'afterwards through %r (line %d): a reader in '
                        'between - or a failure on the way - sees an '
                        'incomplete entry' % (memo, line, obj, ln)))
                    break
    for memo, bound, line in lookups:
        events.append((memo, 'lookup', line))
        for obj in bound:
            for n in nodes:
                if _mutates(n, obj):
                    findings.append((
                        memo, 'remembered-object-not-changed', line,
                        'an object looked up in %s (line %d) is changed in '
                        'place through %r (line %d): every later user of '
                        'the entry sees the change'
                        % (memo, line, obj, getattr(n, 'lineno', 0))))
                    break
    return events, findings


def _branch_paths(fn):
    """id(statement) -> tuple of (id(if/try node), arm) it is nested in."""
    out = {}

    def rec(stmts, path):
        for st in stmts:
            out[id(st)] = path
            for sub in ast.walk(st):
                if sub is not st and isinstance(sub, ast.stmt) and \
                        id(sub) not in out:
                    pass
            if isinstance(st, ast.If):
                rec(st.body, path + ((id(st), 'body'),))
                rec(st.orelse, path + ((id(st), 'orelse'),))
            elif isinstance(st, (ast.For, ast.While)):
                rec(st.body, path)
                rec(st.orelse, path)
            elif isinstance(st, ast.With):
                rec(st.body, path)
            elif isinstance(st, ast.Try):
                rec(st.body, path + ((id(st), 'try'),))
                for i, h in enumerate(st.handlers):
                    rec(h.body, path + ((id(st), 'except%d' % i),))
                rec(st.orelse, path + ((id(st), 'try'),))
                rec(st.finalbody, path)
    rec(fn.body, ())
    return out


def _exclusive(pa, pb):
    da, db = dict(pa), dict(pb)
    for k in da:
        if k in db and da[k] != db[k] and not (
                da[k] == 'try' and db[k].startswith('except')):
            return True
    return False


def _decorated_param(dec_fn):
    ps = _params(dec_fn)
    return set(ps[:1])


def _mutates(n, obj):
    if isinstance(n, ast.Call) and isinstance(n.func, ast.Attribute) and \
            isinstance(n.func.value, ast.Name) and n.func.value.id == obj \
            and n.func.attr in MUTATORS:
        return True
    if isinstance(n, ast.Subscript) and \
            isinstance(n.ctx, (ast.Store, ast.Del)) and \
            isinstance(n.value, ast.Name) and n.value.id == obj:
        return True
    if isinstance(n, ast.AugAssign) and isinstance(n.target, ast.Name) and \
            n.target.id == obj:
        return True
    return False


def _is_cache_decorator(d):
    if isinstance(d, ast.Call):
        d = d.func
    nm = d.attr if isinstance(d, ast.Attribute) else (
        d.id if isinstance(d, ast.Name) else '')
    return nm in ('lru_cache', 'cache', 'cached')


def _is_generator(fn):
    return any(isinstance(n, (ast.Yield, ast.YieldFrom))
               for n in _own_nodes(fn))


def _write_only(tree, names):
    """Module containers whose every use in the module is as the base of a
    subscript that is assigned or augmented."""
    stores = set()
    for n in ast.walk(tree):
        tg = []
        if isinstance(n, ast.AugAssign):
            tg = [n.target]
        elif isinstance(n, ast.Assign):
            tg = n.targets
        for t in tg:
            if isinstance(t, ast.Subscript) and isinstance(t.value, ast.Name):
                stores.add(id(t.value))
    read = set()
    for n in ast.walk(tree):
        if isinstance(n, ast.Name) and n.id in names and \
                isinstance(n.ctx, ast.Load) and id(n) not in stores:
            read.add(n.id)
    return names - read


def scan_module(tree):
    """-> list of dicts {fn, chain, memo, rule, line, text, sites}."""
    memos = module_containers(tree)
    # a container nothing CONSULTS (statistics: every use is `m[k] += v` or
    # `m[k] = v`) remembers nothing a later call could be answered from
    for m_ in _write_only(tree, set(memos)):
        memos.pop(m_, None)
    chains = _fn_chains(tree)
    decorated_count = {}
    decorated_by = {}
    for fn, chain in chains:
        for d in fn.decorator_list:
            nm = d.id if isinstance(d, ast.Name) else (
                d.func.id if isinstance(d, ast.Call) and
                isinstance(d.func, ast.Name) else None)
            if nm:
                decorated_count[nm] = decorated_count.get(nm, 0) + 1
                decorated_by.setdefault(nm, []).append(fn)
    # module-level scalars rebound through `global` count as memos too
    out = []
    n_writers = 0
    for fn, chain in chains:
        # containers created by an enclosing function (one per closure, e.g.
        # per decoration) are memos of the closure: same rules, except that
        # the key need not name what is fixed per closure anyway
        closure_memos = {}
        for enc in chain:
            for x in _own_nodes(enc):
                if isinstance(x, ast.Assign) and len(x.targets) == 1 and \
                        isinstance(x.targets[0], ast.Name) and (
                            (isinstance(x.value, (ast.Dict, ast.Set,
                                                  ast.List)) and
                             not getattr(x.value, 'keys', None) and
                             not getattr(x.value, 'elts', None)) or (
                                isinstance(x.value, ast.Call) and
                                not x.value.args and
                                isinstance(x.value.func, ast.Name) and
                                x.value.func.id in CONTAINER_CALLS)):
                    closure_memos[x.targets[0].id] = enc
        all_memos = dict(memos)
        all_memos.update({k: v.lineno for k, v in closure_memos.items()})
        events, findings = analyse_function(fn, chain, all_memos,
                                            decorated_count, closure_memos)
        if any(k == 'store' for _, k, _ in events):
            n_writers += 1
        sites = [fn]
        if chain and chain[0].name in decorated_by:
            sites = decorated_by[chain[0].name]
        for memo, rule, line, text in findings:
            out.append({'fn': fn, 'chain': chain, 'memo': memo,
                        'rule': rule, 'line': line, 'text': text,
                        'sites': sites})
        if any(_is_cache_decorator(d) for d in fn.decorator_list) and \
                _is_generator(fn):
            out.append({'fn': fn, 'chain': chain, 'memo': fn.name,
                        'rule': 'cached-function-not-a-generator',
                        'line': fn.lineno,
                        'text': '%s is a generator wrapped by a result '
                        'cache: the cached generator object is exhausted by '
                        'its first user, every later call with the same '
                        'arguments yields nothing' % fn.name,
                        'sites': [fn]})
    return out, n_writers


def _returned_wrapper(dec_fn):
    """The nested function a decorator returns (directly, or wrapped in a
    functools.wraps(...)(w) call), or None when it returns its argument /
    something else."""
    nested = {n.name: n for n in ast.iter_child_nodes(dec_fn)
              if isinstance(n, ast.FunctionDef)}
    for n in _own_nodes(dec_fn):
        if isinstance(n, ast.Return) and n.value is not None:
            v = n.value
            if isinstance(v, ast.Call) and v.args and \
                    isinstance(v.args[0], ast.Name):
                v = v.args[0]
            if isinstance(v, ast.Name) and v.id in nested:
                return nested[v.id]
    return None


def wrapper_findings(tree):
    """Function decorators defined in this module whose wrapper is not
    transparent.  -> list of (decorator fn, wrapper fn, line, text,
    decorated sites)."""
    memos = module_containers(tree)
    top = {n.name: n for n in tree.body if isinstance(n, ast.FunctionDef)}
    sites = {}
    for fn, chain in _fn_chains(tree):
        for d in fn.decorator_list:
            core = d.func if isinstance(d, ast.Call) else d
            if isinstance(core, ast.Name) and core.id in top:
                sites.setdefault(core.id, []).append((fn, d))
    out = []
    for dname, uses in sites.items():
        dec = top[dname]
        wrapped_param = None
        w = _returned_wrapper(dec)
        inner = dec
        if w is not None and isinstance(uses[0][1], ast.Call):
            # decorator factory: D(args) returns deco, deco(f) returns w2
            inner = w
            w = _returned_wrapper(inner)
        if w is None:
            continue            # returns the function itself (or unknown)
        ps = _params(inner)
        if not ps:
            continue
        wrapped_param = ps[0]
        wparams = _params(w)
        problems = []
        calls = []
        for n in _own_nodes(w):
            if isinstance(n, ast.Call) and isinstance(n.func, ast.Name) \
                    and n.func.id == wrapped_param:
                calls.append(n)
        if not calls:
            problems.append('never calls the function it wraps')
        for c in calls:
            passed = []
            for a in c.args:
                passed.append(a.value.id if isinstance(a, ast.Starred) and
                              isinstance(a.value, ast.Name) else
                              (a.id if isinstance(a, ast.Name) else None))
            for k in c.keywords:
                passed.append(k.value.id if isinstance(k.value, ast.Name)
                              else None)
            if passed != wparams:
                problems.append('calls it with (%s) instead of its own '
                                'arguments (%s)' % (
                                    ', '.join(ast.unparse(a) for a in c.args),
                                    ', '.join(wparams)))
        for n in _own_nodes(w):
            if isinstance(n, ast.Try) and n.handlers and any(
                    c in list(ast.walk(n)) for c in calls):
                problems.append('catches exceptions of the wrapped function '
                                '(line %d)' % n.lineno)
        # an early return must be the memo hit
        first_call = min([c.lineno for c in calls] or [10 ** 9])
        # containers the decorator creates per decoration count as memos too
        local_memos = set(memos)
        for holder in (dec, inner):
            for x in _own_nodes(holder):
                if isinstance(x, ast.Assign) and len(x.targets) == 1 and \
                        isinstance(x.targets[0], ast.Name) and (
                            isinstance(x.value, (ast.Dict, ast.Set,
                                                 ast.List)) or (
                                isinstance(x.value, ast.Call) and
                                isinstance(x.value.func, ast.Name) and
                                x.value.func.id in CONTAINER_CALLS)):
                    local_memos.add(x.targets[0].id)
        for n in ast.walk(w):
            # the innermost `if` a return sits in
            if isinstance(n, ast.If) and n.lineno < first_call and any(
                    isinstance(x, ast.Return)
                    for x in list(n.body) + list(n.orelse)):
                t = n.test
                ok = isinstance(t, ast.Compare) and len(t.ops) == 1 and \
                    isinstance(t.ops[0], (ast.In, ast.NotIn)) and \
                    isinstance(t.comparators[0], ast.Name) and \
                    t.comparators[0].id in local_memos
                if not ok:
                    problems.append('returns without calling the wrapped '
                                    'function when `%s` (line %d)'
                                    % (ast.unparse(t)[:50], n.lineno))
        # the result is handed on when a wrapped function returns a value
        returns_value = any(
            isinstance(x, ast.Return) and x.value is not None and not (
                isinstance(x.value, ast.Constant) and x.value.value is None)
            for fn, _ in uses for x in _own_nodes(fn))
        if returns_value:
            handed = any(isinstance(x, ast.Return) and x.value is not None
                         and any(c in list(ast.walk(x.value)) for c in calls)
                         for x in _own_nodes(w)) or any(
                isinstance(x, ast.Assign) and any(
                    c in list(ast.walk(x.value)) for c in calls)
                for x in _own_nodes(w))
            if not handed:
                problems.append('drops the value the wrapped function '
                                'returns')
        for pr in problems:
            out.append((dec, w, w.lineno,
                        'the wrapper %s.%s put around %s %s: the wrapped '
                        'function no longer answers as its body says'
                        % (dec.name, w.name,
                           ', '.join(fn.name for fn, _ in uses), pr),
                        [fn for fn, _ in uses]))
    return out, sum(len(u) for u in sites.values())


def _roots(prog, pid):
    roots = []
    for pat in PROP_ROOTS.get(pid, ()):
        rx = re.compile(pat + r'\Z')
        for q, fi in prog.all_funcs.items():
            if fi.parent is None and rx.match(q):
                roots.append(fi)
    return roots


def memo_rules(ctx, pid):
    prog = ctx.prog
    roots = _roots(prog, pid)
    if not roots:
        raise AnalysisError('no entry point of %s found (scope.PROP_ROOTS)'
                            % pid)
    reach = CG.reachable(prog, roots)
    from ..scope import REACH_ONLY
    only = REACH_ONLY.get(pid)
    if only is not None:
        only = only(prog)
        reach = {q: fi for q, fi in reach.items() if only(fi)}
    reach_nodes = {id(fi.node): fi for fi in reach.values()}
    # a known function split into a delegate and its old body (loader):
    # callers are analysed against the body; the delegate runs whenever the
    # body is reached
    for core, wrapper in getattr(prog, 'splits', {}).items():
        if core in reach and wrapper in prog.all_funcs:
            w = prog.all_funcs[wrapper]
            reach_nodes[id(w.node)] = w
    n_mod = n_writers = 0
    for m in prog.modules.values():
        found, nw = scan_module(m.tree)
        n_mod += 1
        n_writers += nw
        for f in found:
            hit = [reach_nodes[id(s)] for s in f['sites']
                   if id(s) in reach_nodes]
            if not hit:
                continue
            qn = '.'.join([m.name] + [c.name for c in f['chain']] +
                          [f['fn'].name])
            ctx.ob('%s.DM' % pid, qn, '%s:%s' % (f['rule'], f['memo']),
                   False, '%s [reached from %s through %s]' % (
                       f['text'], pid, hit[0].qualname),
                   loc='%s:%d' % (m.relpath, f['line']))
    n_wrapped = 0
    for m in prog.modules.values():
        found, nw = wrapper_findings(m.tree)
        n_wrapped += nw
        for dec, w, line, text, sites in found:
            hit = [reach_nodes[id(s)] for s in sites if id(s) in reach_nodes]
            if not hit:
                continue
            ctx.ob('%s.DM' % pid, '%s.%s.%s' % (m.name, dec.name, w.name),
                   'wrapper-transparent', False,
                   '%s [reached from %s through %s]' % (text, pid,
                                                        hit[0].qualname),
                   loc='%s:%d' % (m.relpath, line))
    ctx.extra['wrapped_functions'] = n_wrapped
    ctx.ob('%s.DM' % pid, 'package', 'run-time-state-is-a-sound-memo', True,
           '%d module(s) scanned, %d function(s) write module-level state, '
           '%d function(s) reachable from the entry points'
           % (n_mod, n_writers, len(reach)), nontrivial=False)
    _control()
    ctx.extra['memo_scan'] = {'modules': n_mod, 'writers': n_writers,
                              'reachable_functions': len(reach),
                              'roots': sorted(r.qualname for r in roots)}


_CONTROL_OK = []


def _control():
    """The expected count on the pinned tree is zero: the fixture keeps one
    instance of every rule that must be recognised on every run."""
    if _CONTROL_OK:
        return
    fx = os.path.join(os.path.dirname(os.path.dirname(os.path.dirname(
        os.path.abspath(__file__)))), 'fixtures', 'unsound_memos.py')
    try:
        tree = ast.parse(open(fx).read())
    except OSError:
        raise AnalysisError('positive-control fixture missing: %s' % fx)
    found, _ = scan_module(tree)
    got = {(f['fn'].name, f['rule']) for f in found}
    want = {('pack_length', 'key-complete'),
            ('wrapper', 'key-complete'),
            ('check_elem', 'nothing-remembered-on-failure'),
            ('split', 'remembered-object-not-changed'),
            ('lookup_and_extend', 'remembered-object-not-changed'),
            ('pieces', 'cached-function-not-a-generator')}
    if not want <= got:
        raise AnalysisError('positive control failed: the memo rules miss %s '
                            'in fixtures/unsound_memos.py'
                            % sorted(want - got))
    wf, _ = wrapper_findings(tree)
    wgot = {d.name for d, _, _, _, _ in wf}
    if 'lenient' not in wgot or wgot & {'remember', 'once'}:
        raise AnalysisError('positive control failed: wrapper transparency '
                            'reports %s in fixtures/unsound_memos.py'
                            % sorted(wgot))
    sound = {f['fn'].name for f in found} & {'sound_packer', 'sound_split',
                                             'only_one'}
    if sound:
        raise AnalysisError('positive control failed: the memo rules flag '
                            'the sound memos %s of the fixture'
                            % sorted(sound))
    _CONTROL_OK.append(True)
