"""Common clause DP: four Python pitfalls with a crisp syntactic shape.

Each of them turns code that reads correctly into code whose answer depends on
WHICH value, or on what ran before - the inputs a test suite does not pick.
They are decided for the functions reachable from the property's entry points
(scope.PROP_ROOTS, resolved call edges):

  P1 search-loop variable   a `for` loop that can `break` (a search) and has no
        `else`; its target variable is read after the loop although nothing
        between the loop and the read leaves when the search FAILED (a test,
        with raise/return, of a variable the loop body assigns).  When nothing
        matches, the variable is the LAST element, not "none".
  P2 stale snapshot         a local computed from self.X before a loop whose
        body rebinds self.X, read inside the loop and never recomputed there.
  P3 one object, two names  `a = b = []` (any mutable display / constructor)
        where the two targets are different slots: both name ONE container.
  P4 shared containers      a class-level container mutated in place through
        an instance / a mutable default argument kept or mutated (the rule of
        C09.D6, here for every class a reachable function mutates).

The expected count on the pinned tree is zero; fixtures/pitfalls.py keeps one
positive instance of P1-P3 and the accepted forms, checked on every run.
"""
import ast
import os

from .. import callgraph as CG
from ..loader import AnalysisError
from .memo import _own_nodes, _roots

MUTABLE_CALLS = ('list', 'dict', 'set', 'bytearray', 'deque', 'defaultdict',
                 'OrderedDict')


def _is_mutable_display(v):
    return isinstance(v, (ast.List, ast.Dict, ast.Set, ast.ListComp,
                          ast.DictComp, ast.SetComp)) or (
        isinstance(v, ast.Call) and isinstance(v.func, ast.Name) and
        v.func.id in MUTABLE_CALLS)


def _leaves(body):
    """Does the block end by leaving the function / raising?"""
    return bool(body) and isinstance(body[-1], (ast.Raise, ast.Return))


def search_loop_variable(fn):
    out = []
    nodes = list(_own_nodes(fn))
    for n in nodes:
        if not isinstance(n, ast.For) or n.orelse:
            continue
        breaks = [x for x in ast.walk(n) if isinstance(x, ast.Break)]
        # a break of an inner loop does not end this one
        inner = [l for l in ast.walk(n) if isinstance(l, (ast.For, ast.While))
                 and l is not n]
        breaks = [b for b in breaks
                  if not any(b in list(ast.walk(l)) for l in inner)]
        if not breaks:
            continue
        tv = {x.id for x in ast.walk(n.target) if isinstance(x, ast.Name)}
        assigned_in_body = {x.id for st in n.body for x in ast.walk(st)
                            if isinstance(x, ast.Name) and
                            isinstance(x.ctx, ast.Store)} - tv
        end = n.end_lineno
        after = sorted((x for x in nodes if isinstance(x, ast.Name) and
                        x.id in tv and x.lineno > end),
                       key=lambda x: (x.lineno, x.col_offset))
        if not after or not isinstance(after[0].ctx, ast.Load):
            continue
        first = after[0]
        # a guard between the loop and the read that leaves when a variable
        # the loop body assigns says "not found"
        guarded = False
        for g in nodes:
            if isinstance(g, ast.If) and end < g.lineno <= first.lineno and \
                    (_leaves(g.body) or _leaves(g.orelse)):
                names = {x.id for x in ast.walk(g.test)
                         if isinstance(x, ast.Name)}
                if names & assigned_in_body and \
                        not (g.lineno <= first.lineno <= g.end_lineno and
                             first in list(ast.walk(g.test))):
                    guarded = True
        if guarded:
            continue
        out.append((n.lineno, 'search-loop-variable:%s' % first.id,
                    'the loop at line %d can end by `break` or by running '
                    'out of elements and has no `else`; %r is read '
                    'afterwards (line %d) without a test that the search '
                    'succeeded: when nothing matched it still names the '
                    'LAST element' % (n.lineno, first.id, first.lineno)))
    return out


def stale_snapshot(fn):
    out = []
    nodes = list(_own_nodes(fn))
    for n in nodes:
        if not isinstance(n, (ast.While, ast.For)):
            continue
        written = {x.attr for x in ast.walk(n)
                   if isinstance(x, ast.Attribute) and
                   isinstance(x.ctx, ast.Store) and
                   isinstance(x.value, ast.Name) and x.value.id == 'self'}
        if not written:
            continue
        assigned_in = {x.id for x in ast.walk(n) if isinstance(x, ast.Name)
                       and isinstance(x.ctx, ast.Store)}
        for a in nodes:
            if not (isinstance(a, ast.Assign) and a.lineno < n.lineno and
                    len(a.targets) == 1 and
                    isinstance(a.targets[0], ast.Name)):
                continue
            nm = a.targets[0].id
            if nm in assigned_in:
                continue
            reads = {x.attr for x in ast.walk(a.value)
                     if isinstance(x, ast.Attribute) and
                     isinstance(x.value, ast.Name) and x.value.id == 'self'}
            # a plain alias of a mutable object is not a snapshot of a value
            if isinstance(a.value, ast.Attribute):
                continue
            hit = reads & written
            if not hit:
                continue
            # reassigned between the snapshot and the loop?
            if any(isinstance(b, ast.Assign) and a.lineno < b.lineno <
                   n.lineno and any(isinstance(t, ast.Name) and t.id == nm
                                    for t in b.targets) for b in nodes):
                continue
            uses = [x for x in ast.walk(n) if isinstance(x, ast.Name) and
                    x.id == nm and isinstance(x.ctx, ast.Load)]
            if uses:
                out.append((n.lineno, 'stale-snapshot:%s' % nm,
                            '%r is computed from self.%s before the loop at '
                            'line %d, the loop body rebinds self.%s and '
                            'reads %r (line %d) without recomputing it: '
                            'from the second iteration on the value is '
                            'stale' % (nm, sorted(hit)[0], n.lineno,
                                       sorted(hit)[0], nm, uses[0].lineno)))
    return out


def one_object_two_names(fn):
    out = []
    for n in _own_nodes(fn):
        if isinstance(n, ast.Assign) and len(n.targets) > 1 and \
                _is_mutable_display(n.value):
            out.append((n.lineno, 'one-object-two-names',
                        '`%s` binds ONE mutable object to %d targets: what '
                        'is added through one appears under the other'
                        % (ast.unparse(n)[:70], len(n.targets))))
    return out


def shallow_copy_of_shared_mutables(fn, shared):
    """`x = dict(T)` / `T.copy()` / `list(T)` / `copy.copy(T)` where T is a
    module- or class-level container whose ELEMENTS are mutable displays,
    followed by an in-place change of an element (`x[k].append(...)`,
    `x[k][i] = ...`, `x[k] += ...`): the copy is shallow, the element is the
    one object every call (and the template itself) shares."""
    out = []
    copies = {}
    for n in _own_nodes(fn):
        if isinstance(n, ast.Assign) and len(n.targets) == 1 and \
                isinstance(n.targets[0], ast.Name) and \
                isinstance(n.value, ast.Call):
            c = n.value
            src = None
            if isinstance(c.func, ast.Name) and \
                    c.func.id in ('dict', 'list', 'set', 'tuple') and \
                    len(c.args) == 1 and isinstance(c.args[0], ast.Name):
                src = c.args[0].id
            elif isinstance(c.func, ast.Attribute) and \
                    c.func.attr == 'copy' and not c.args and \
                    isinstance(c.func.value, ast.Name):
                src = c.func.value.id
            elif isinstance(c.func, ast.Attribute) and \
                    c.func.attr == 'copy' and len(c.args) == 1 and \
                    isinstance(c.args[0], ast.Name):
                src = c.args[0].id           # copy.copy(T)
            if src in shared:
                copies[n.targets[0].id] = (src, n.lineno)
    if not copies:
        return out
    for n in _own_nodes(fn):
        base = None
        how = None
        if isinstance(n, ast.Call) and isinstance(n.func, ast.Attribute) \
                and n.func.attr in ('append', 'extend', 'insert', 'add',
                                    'update', 'setdefault', 'pop', 'remove',
                                    'clear', 'sort') and \
                isinstance(n.func.value, ast.Subscript):
            base, how = n.func.value.value, '.%s(...)' % n.func.attr
        elif isinstance(n, ast.Subscript) and \
                isinstance(n.ctx, (ast.Store, ast.Del)) and \
                isinstance(n.value, ast.Subscript):
            base, how = n.value.value, '[...] = ...'
        elif isinstance(n, ast.AugAssign) and \
                isinstance(n.target, ast.Subscript):
            base, how = n.target.value, 'augmented assignment'
        if isinstance(base, ast.Name) and base.id in copies:
            src, line = copies[base.id]
            out.append((n.lineno, 'shallow-copy-of-shared-mutables:%s' % src,
                        '%r is a SHALLOW copy of the shared table %s (line '
                        '%d), whose elements are mutable; line %d changes '
                        'one of them in place (%s): every later call, and '
                        'every object that kept an earlier copy, sees it'
                        % (base.id, src, line, n.lineno, how)))
            break
    return out


def _shared_mutable_tables(tree):
    """Module- and class-level containers at least one element of which
    is a mutable display."""
    out = set()

    def holds_mutable(v):
        elems = []
        if isinstance(v, ast.Dict):
            elems = v.values
        elif isinstance(v, (ast.List, ast.Tuple, ast.Set)):
            elems = v.elts
        return any(_is_mutable_display(e) for e in elems)
    for st in tree.body:
        body = [st] + (list(st.body) if isinstance(st, ast.ClassDef) else [])
        for x in body:
            if isinstance(x, ast.Assign) and len(x.targets) == 1 and \
                    isinstance(x.targets[0], ast.Name) and \
                    holds_mutable(x.value):
                out.add(x.targets[0].id)
    return out


def shared_deferred(fn):
    """P6: a Deferred that the function files in a container of `self`
    AND returns is handed out a second time when a later call returns what
    it finds in that container (`d = self._inflight.get(k); if d: return
    d`).  Two callers then chain their callbacks on ONE Deferred: the second
    caller's callbacks receive the first caller's transformed result."""
    nodes = list(_own_nodes(fn))
    deferredish = set()
    for n in nodes:
        if isinstance(n, ast.Call) and isinstance(n.func, ast.Attribute) \
                and n.func.attr in ('addCallback', 'addCallbacks',
                                    'addErrback', 'addBoth', 'callback',
                                    'errback') and \
                isinstance(n.func.value, ast.Name):
            deferredish.add(n.func.value.id)
    if not deferredish:
        return []
    filed = {}      # container attr -> line
    for n in nodes:
        if isinstance(n, ast.Assign) and isinstance(n.value, ast.Name) and \
                n.value.id in deferredish:
            for t in n.targets:
                if isinstance(t, ast.Subscript) and \
                        isinstance(t.value, ast.Attribute) and \
                        isinstance(t.value.value, ast.Name) and \
                        t.value.value.id == 'self':
                    filed[t.value.attr] = n.lineno
    if not filed:
        return []
    returned = {n.value.id for n in nodes if isinstance(n, ast.Return) and
                isinstance(n.value, ast.Name)}
    if not (returned & deferredish):
        return []
    out = []

    def _taken_from(v):
        if isinstance(v, ast.Call) and \
                isinstance(v.func, ast.Attribute) and \
                v.func.attr in ('get', 'pop') and \
                isinstance(v.func.value, ast.Attribute) and \
                isinstance(v.func.value.value, ast.Name) and \
                v.func.value.value.id == 'self':
            return v.func.value.attr
        if isinstance(v, ast.Subscript) and \
                isinstance(v.value, ast.Attribute) and \
                isinstance(v.value.value, ast.Name) and \
                v.value.value.id == 'self':
            return v.value.attr
        return None
    for n in nodes:
        # `return self._inflight[key]` without a local in between
        if isinstance(n, ast.Return) and n.value is not None and \
                _taken_from(n.value) in filed:
            attr = _taken_from(n.value)
            out.append((n.lineno, 'shared-deferred:%s' % attr,
                        'the Deferred filed in self.%s (line %d) is also '
                        'returned to the caller, and a later call '
                        'returns the SAME Deferred taken from there '
                        '(line %d): both callers chain callbacks on one '
                        'object, the second sees the first one\'s '
                        'transformed result (hand out a fresh Deferred '
                        'per caller)' % (attr, filed[attr], n.lineno)))
    for n in nodes:
        if isinstance(n, ast.Assign) and len(n.targets) == 1 and \
                isinstance(n.targets[0], ast.Name):
            v = n.value
            attr = None
            if isinstance(v, ast.Call) and \
                    isinstance(v.func, ast.Attribute) and \
                    v.func.attr in ('get', 'pop') and \
                    isinstance(v.func.value, ast.Attribute) and \
                    isinstance(v.func.value.value, ast.Name) and \
                    v.func.value.value.id == 'self':
                attr = v.func.value.attr
            elif isinstance(v, ast.Subscript) and \
                    isinstance(v.value, ast.Attribute) and \
                    isinstance(v.value.value, ast.Name) and \
                    v.value.value.id == 'self':
                attr = v.value.attr
            if attr in filed and n.targets[0].id in returned:
                out.append((n.lineno, 'shared-deferred:%s' % attr,
                            'the Deferred filed in self.%s (line %d) is also '
                            'returned to the caller, and a later call '
                            'returns the SAME Deferred taken from there '
                            '(line %d): both callers chain callbacks on one '
                            'object, the second sees the first one\'s '
                            'transformed result (hand out a fresh Deferred '
                            'per caller)' % (attr, filed[attr], n.lineno)))
    return out


def temporary_entry_released(fn):
    """P7: a marker put into a container that outlives the call (a
    module-level name, an attribute of `self`) and taken out again further
    down the same block - `_busy.add(k) ... work() ... _busy.remove(k)` -
    stays there for ever when the work in between raises, unless the removal
    sits in a `finally`.  The next call that looks the marker up then answers
    for a state that no longer exists."""
    out = []
    locals_ = {n.id for n in _own_nodes(fn) if isinstance(n, ast.Name) and
               isinstance(n.ctx, ast.Store)} | {a.arg for a in
                                               fn.args.args}
    locals_ -= {nm for n in _own_nodes(fn) if isinstance(n, ast.Global)
                for nm in n.names}

    def cont(e):
        # container expression that outlives the call
        if isinstance(e, ast.Name) and e.id not in locals_:
            return e.id
        if isinstance(e, ast.Attribute) and isinstance(e.value, ast.Name) \
                and e.value.id == 'self':
            return 'self.' + e.attr
        return None

    def put(st):
        if isinstance(st, ast.Expr) and isinstance(st.value, ast.Call) and \
                isinstance(st.value.func, ast.Attribute) and \
                st.value.func.attr in ('add', 'append') and \
                len(st.value.args) == 1:
            c = cont(st.value.func.value)
            return (c, ast.dump(st.value.args[0])) if c else None
        if isinstance(st, ast.Assign) and len(st.targets) == 1 and \
                isinstance(st.targets[0], ast.Subscript):
            c = cont(st.targets[0].value)
            return (c, ast.dump(st.targets[0].slice)) if c else None
        # a counter that outlives the call: `_depth += 1 ... _depth -= 1`
        if isinstance(st, ast.AugAssign) and isinstance(st.op, ast.Add):
            c = cont(st.target)
            return (c, 'count:' + ast.dump(st.value)) if c else None
        return None

    def take(st):
        if isinstance(st, ast.AugAssign) and isinstance(st.op, ast.Sub):
            c = cont(st.target)
            return (c, 'count:' + ast.dump(st.value)) if c else None
        if isinstance(st, ast.Expr) and isinstance(st.value, ast.Call) and \
                isinstance(st.value.func, ast.Attribute) and \
                st.value.func.attr in ('remove', 'discard', 'pop') and \
                len(st.value.args) >= 1:
            c = cont(st.value.func.value)
            return (c, ast.dump(st.value.args[0])) if c else None
        if isinstance(st, ast.Delete) and len(st.targets) == 1 and \
                isinstance(st.targets[0], ast.Subscript):
            c = cont(st.targets[0].value)
            return (c, ast.dump(st.targets[0].slice)) if c else None
        return None

    def may_raise(st):
        for n in ast.walk(st):
            if isinstance(n, ast.Raise):
                return True
            if isinstance(n, ast.Call) and not (
                    isinstance(n.func, ast.Name) and n.func.id in (
                        'id', 'len', 'isinstance', 'type', 'repr', 'str',
                        'bool', 'hasattr', 'callable')):
                return True
        return False

    def blocks(node):
        for n in _own_nodes(node):
            for f in ('body', 'orelse', 'finalbody'):
                b = getattr(n, f, None)
                if isinstance(b, list) and b and isinstance(b[0], ast.stmt):
                    yield b
        yield fn.body
    seen = set()
    for b in blocks(fn):
        for i, st in enumerate(b):
            k = put(st)
            if k is None:
                continue
            for j in range(i + 1, len(b)):
                if take(b[j]) == k:
                    between = b[i + 1:j]
                    if any(may_raise(x) for x in between) and \
                            (st.lineno, k) not in seen:
                        seen.add((st.lineno, k))
                        out.append((st.lineno,
                                    'temporary-entry-released:%s' % k[0],
                                    'an entry is put into %s (line %d) and '
                                    'taken out again at line %d, but what '
                                    'runs in between can raise and the '
                                    'removal is not in a `finally`: after '
                                    'one failure the entry stays for the '
                                    'life of the process and later calls '
                                    'are answered for a state that is gone'
                                    % (k[0], st.lineno, b[j].lineno)))
                    break
    return out


def registered_before_complete(fn):
    """P8: a constructor that enters `self` into a container other objects
    look things up in (a class-level registry, a module-level table) and can
    still `raise` afterwards publishes a half-built object: the caller gets
    the exception, everybody else gets the object."""
    if fn.name != '__init__':
        return []
    out = []
    body = fn.body

    def publishes(st):
        for n in ast.walk(st):
            if isinstance(n, ast.Assign) and len(n.targets) == 1 and \
                    isinstance(n.targets[0], ast.Subscript) and \
                    isinstance(n.value, ast.Name) and n.value.id == 'self':
                return n.lineno, ast.unparse(n.targets[0].value)
            if isinstance(n, ast.Call) and \
                    isinstance(n.func, ast.Attribute) and \
                    n.func.attr in ('append', 'add', 'setdefault') and \
                    n.args and isinstance(n.args[-1], ast.Name) and \
                    n.args[-1].id == 'self' and not (
                        isinstance(n.func.value, ast.Attribute) and
                        isinstance(n.func.value.value, ast.Name) and
                        n.func.value.value.id == 'self' and False):
                return n.lineno, ast.unparse(n.func.value)
        return None
    for i, st in enumerate(body):
        pub = publishes(st)
        if pub is None:
            continue
        later = [n for x in body[i + 1:] for n in ast.walk(x)
                 if isinstance(n, ast.Raise)]
        if later:
            out.append((pub[0], 'registered-before-complete:%s' % pub[1],
                        'the constructor enters the new object into %s '
                        '(line %d) and can still raise afterwards (line %d): '
                        'a construction that fails leaves a half-built '
                        'object registered, and later look-ups are served '
                        'with it' % (pub[1], pub[0], later[0].lineno)))
    return out


def none_sentinel_tested_by_truth(fn):
    """P9: `first = None` ... `for .. v ..: if not first: first = v` - "not
    seen yet" is a question about the sentinel (`is None`); asked as a truth
    test it is also answered yes by every falsy VALUE (0, False, '', [], {}),
    which is then silently replaced by the next one."""
    out = []
    nodes = list(_own_nodes(fn))
    none_init = {t.id for n in nodes if isinstance(n, ast.Assign) and
                 isinstance(n.value, ast.Constant) and n.value.value is None
                 for t in n.targets if isinstance(t, ast.Name)}
    if not none_init:
        return out
    for loop in nodes:
        if not isinstance(loop, ast.For):
            continue
        elems = {x.id for x in ast.walk(loop.target)
                 if isinstance(x, ast.Name)}
        for n in ast.walk(loop):
            if not isinstance(n, ast.If):
                continue
            t = n.test
            var = None
            if isinstance(t, ast.UnaryOp) and isinstance(t.op, ast.Not) and \
                    isinstance(t.operand, ast.Name):
                var, branch = t.operand.id, n.body
            elif isinstance(t, ast.Name):
                var, branch = t.id, n.orelse
            if var not in none_init:
                continue
            # the branch taken when "nothing yet" stores a loop element in it
            stores = [a for b in branch for a in ast.walk(b)
                      if isinstance(a, ast.Assign) and any(
                          isinstance(x, ast.Name) and x.id == var
                          for x in a.targets) and
                      isinstance(a.value, ast.Name) and a.value.id in elems]
            if stores:
                out.append((n.lineno, 'none-sentinel-tested-by-truth:%s' % var,
                            '%s starts as None and is given an element of '
                            'the sequence (line %d), but "not seen yet" is '
                            'tested by truth value (line %d): a first element '
                            'that is falsy - 0, False, an empty string or '
                            'container - counts as not seen and is replaced '
                            'by the next one' % (var, stores[0].lineno,
                                                 n.lineno)))
    return out


def cycle_guard_released(fn):
    """P10: a recursion guard - `if k in seen: raise ...; seen.add(k)` with
    `seen` handed on to the recursive calls - must take k out again when the
    call returns (or hand down `seen | {k}`).  A set that only grows records
    everything VISITED, not what is on the current path: an object that is
    merely reached twice (shared, not cyclic) is refused as a cycle."""
    out = []
    params = {a.arg for a in fn.args.args + fn.args.kwonlyargs}
    nodes = list(_own_nodes(fn))
    for s_ in sorted(params):
        adds = [n for n in nodes if isinstance(n, ast.Call) and
                isinstance(n.func, ast.Attribute) and
                n.func.attr == 'add' and isinstance(n.func.value, ast.Name)
                and n.func.value.id == s_ and len(n.args) == 1]
        if not adds:
            continue
        guards = [n for n in nodes if isinstance(n, ast.If) and any(
            isinstance(c, ast.Compare) and len(c.ops) == 1 and
            isinstance(c.ops[0], ast.In) and
            isinstance(c.comparators[0], ast.Name) and
            c.comparators[0].id == s_ for c in ast.walk(n.test)) and any(
            isinstance(x, ast.Raise) for st in n.body for x in ast.walk(st))]
        recursive = [n for n in nodes if isinstance(n, ast.Call) and
                     isinstance(n.func, ast.Name) and n.func.id == fn.name
                     and any(isinstance(a, ast.Name) and a.id == s_
                             for a in list(n.args) +
                             [k.value for k in n.keywords])]
        released = [n for n in nodes if isinstance(n, ast.Call) and
                    isinstance(n.func, ast.Attribute) and
                    n.func.attr in ('remove', 'discard', 'pop', 'clear') and
                    isinstance(n.func.value, ast.Name) and
                    n.func.value.id == s_]
        if guards and recursive and not released:
            out.append((adds[0].lineno, 'cycle-guard-released:%s' % s_,
                        '%s() refuses an object found in `%s`, adds it, and '
                        'hands `%s` to its recursive calls, but never takes '
                        'it out again: the set holds everything visited, '
                        'not the current path, so an object that is only '
                        'referenced twice (no cycle) is refused'
                        % (fn.name, s_, s_)))
    return out


def scan_function(fn, shared=()):
    return search_loop_variable(fn) + stale_snapshot(fn) + \
        one_object_two_names(fn) + \
        shallow_copy_of_shared_mutables(fn, shared) + shared_deferred(fn) + \
        temporary_entry_released(fn) + registered_before_complete(fn) + \
        none_sentinel_tested_by_truth(fn) + cycle_guard_released(fn)


def pitfall_rules(ctx, pid):
    prog = ctx.prog
    roots = _roots(prog, pid)
    reach = CG.reachable(prog, roots)
    from ..scope import REACH_ONLY
    only = REACH_ONLY.get(pid)
    if only is not None:
        only = only(prog)
        reach = {q: fi for q, fi in reach.items() if only(fi)}
    n = 0
    shared_by_module = {m.name: _shared_mutable_tables(m.tree)
                        for m in prog.modules.values()}
    for q, fi in sorted(reach.items()):
        n += 1
        for line, slot, text in scan_function(
                fi.node, shared_by_module.get(fi.module.name, ())):
            ctx.ob('%s.DP' % pid, q, slot, False,
                   '%s [reached from the entry points of %s]' % (text, pid),
                   loc='%s:%d' % (fi.module.relpath, line))
    # P4: shared containers, for the classes a reachable function mutates
    from .c09 import per_instance_registries

    class _Sub:
        tier = ctx.tier
        extra = {}

        def __init__(self):
            self.prog = prog

        def ob(self, rule, where, slot, ok, msg, detail=None,
               nontrivial=True, loc=None):
            if ok:
                return ok
            who = (detail or {}).get('mutators') or [where]
            if any(w in reach for w in who):
                ctx.ob('%s.DP' % pid, where, slot, False, msg, detail,
                       nontrivial, loc)
            return ok

        def floor(self, *a):
            pass

        def advisory(self, *a):
            pass
    per_instance_registries(
        _Sub(), '%s.DP' % pid, tuple(prog.modules),
        'state of one instance / call shows up in another')
    ctx.ob('%s.DP' % pid, 'package', 'no-pitfall-shapes', True,
           '%d reachable function(s) scanned' % n, nontrivial=False)
    _control()
    ctx.extra['pitfall_scan'] = {'reachable_functions': n}


_OK = []


def _control():
    if _OK:
        return
    fx = os.path.join(os.path.dirname(os.path.dirname(os.path.dirname(
        os.path.abspath(__file__)))), 'fixtures', 'pitfalls.py')
    try:
        tree = ast.parse(open(fx).read())
    except OSError:
        raise AnalysisError('positive-control fixture missing: %s' % fx)
    got = {}
    shared = _shared_mutable_tables(tree)
    for fn in ast.walk(tree):
        if isinstance(fn, ast.FunctionDef):
            got[fn.name] = {s.split(':')[0]
                            for _, s, _ in scan_function(fn, shared)}
    want = {'pick_interface': {'search-loop-variable'},
            'frame': {'stale-snapshot'},
            'parse_rule': {'one-object-two-names'},
            'parse_from_template': {'shallow-copy-of-shared-mutables'},
            'parse_from_template_ok': set(),
            'introspect_coalesced': {'shared-deferred'},
            'introspect_coalesced_direct': {'shared-deferred'},
            'guarded_work': {'temporary-entry-released'},
            'counted_work': {'temporary-entry-released'},
            'sig_of': {'cycle-guard-released'},
            'sig_of_path': set(),
            'counted_work_finally': set(),
            'first_value_by_truth': {'none-sentinel-tested-by-truth'},
            'first_value_by_identity': set(),
            '__init__': {'registered-before-complete'},
            'guarded_work_finally': set(),
            'introspect_fanout': set(),
            'pick_guarded': set(), 'pick_else': set(), 'frame_fresh': set(),
            'parse_rule_ok': set()}
    bad = {k: (got.get(k), v) for k, v in want.items() if got.get(k) != v}
    if bad:
        raise AnalysisError('positive control failed: fixtures/pitfalls.py '
                            'gives %s' % bad)
    _OK.append(True)
