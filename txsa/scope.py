"""Which source files carry the anchors of which property (used to scope the
package-wide rules and to choose the checks a corpus entry is run against)."""
FILE_PROPS = {
    'marshal.py': ['C01', 'C02', 'C03', 'C05', 'C18', 'C19', 'C20'],
    'message.py': ['C03', 'C08', 'C10', 'C11', 'C14', 'C18', 'C20', 'C04'],
    'protocol.py': ['C04', 'C06', 'C07', 'C20', 'C03'],
    'authentication.py': ['C06', 'C07'],
    'client.py': ['C08', 'C09', 'C11', 'C12', 'C13'],
    'router.py': ['C12', 'C14'],
    'endpoints.py': ['C09'],
    'objects.py': ['C09', 'C10', 'C11', 'C12', 'C16', 'C17'],
    'bus.py': ['C06', 'C12', 'C13', 'C14', 'C11'],
    'introspection.py': ['C11', 'C15', 'C16'],
    'interface.py': ['C11', 'C15', 'C19', 'C10', 'C17'],
    'error.py': ['C08', 'C10', 'C13'],
}


def modules_of(pid):
    return sorted(f[:-3] for f, ps in FILE_PROPS.items() if pid in ps)
