"""Which source files carry the anchors of which property (used to scope the
package-wide rules and to choose the checks a corpus entry is run against)."""
FILE_PROPS = {
    'marshal.py': ['C01', 'C02', 'C03', 'C05', 'C18', 'C19', 'C20'],
    'message.py': ['C03', 'C08', 'C10', 'C11', 'C14', 'C18', 'C20', 'C04'],
    'protocol.py': ['C04', 'C06', 'C07', 'C20', 'C03'],
    'authentication.py': ['C06', 'C07'],
    'client.py': ['C08', 'C09', 'C11', 'C12', 'C13'],
    'router.py': ['C12', 'C14'],
    'endpoints.py': ['C09'],
    'objects.py': ['C09', 'C10', 'C11', 'C12', 'C16', 'C17'],
    'bus.py': ['C06', 'C12', 'C13', 'C14', 'C11'],
    'introspection.py': ['C11', 'C15', 'C16'],
    'interface.py': ['C11', 'C15', 'C19', 'C10', 'C17'],
    'error.py': ['C08', 'C10', 'C13'],
}


def modules_of(pid):
    return sorted(f[:-3] for f, ps in FILE_PROPS.items() if pid in ps)


# Entry points of each property (regular expressions over qualified names;
# the functions a property is about are those reachable from them through
# resolved call edges).  Used to attribute package-wide clauses (DM).
PROP_ROOTS = {
    'C01': [r'marshal\.marshal', r'marshal\.unmarshal'],
    'C02': [r'marshal\.marshal', r'marshal\.unmarshal'],
    'C03': [r'message\.\w+\.__init__', r'message\.DBusMessage\._marshal',
            r'message\.parseMessage'],
    'C04': [r'protocol\.BasicDBusProtocol\.dataReceived'],
    'C05': [r'message\.parseMessage', r'marshal\.unmarshal',
            r'protocol\.BasicDBusProtocol\.dataReceived'],
    'C06': [r'authentication\.Bus\w+\..*', r'bus\.BusProtocol\..*',
            r'protocol\.BasicDBusProtocol\.dataReceived'],
    'C07': [r'authentication\.ClientAuthenticator\..*',
            r'protocol\.BasicDBusProtocol\.dataReceived'],
    'C08': [r'client\.DBusClientConnection\.(callRemote|callRemoteMessage|'
            r'methodReturnReceived|errorReceived|_onMethodTimeout|'
            r'_cbCvtReply|connectionLost)'],
    'C09': [r'client\.connect', r'client\.DBusClientFactory\..*',
            r'client\.DBusClientConnection\.(connectionLost|'
            r'connectionAuthenticated|_cbGotHello|notifyOnDisconnect|'
            r'cancelNotifyOnDisconnect)',
            r'endpoints\.getDBusEndpoints',
            r'objects\.DBusObjectHandler\.connectionLost',
            r'objects\.RemoteDBusObject\.(notifyOnDisconnect|'
            r'cancelNotifyOnDisconnect|connectionLost)'],
    'C10': [r'objects\.DBusObjectHandler\.handleMethodCallMessage',
            r'objects\.DBusObject\.executeMethod'],
    'C11': [r'objects\.RemoteDBusObject\.callRemote',
            r'objects\.DBusObjectHandler\.(getRemoteObject|'
            r'handleMethodCallMessage)',
            r'client\.DBusClientConnection\.(callRemote|'
            r'introspectRemoteObject|methodReturnReceived|errorReceived)',
            r'bus\.BusProtocol\.rawDBusMessageReceived',
            r'bus\.Bus\.(messageReceived|sendMessage)',
            r'protocol\.BasicDBusProtocol\.(dataReceived|sendMessage)'],
    'C12': [r'router\..*', r'client\.DBusClientConnection\.(addMatch|'
            r'delMatch|signalReceived)',
            r'objects\.RemoteDBusObject\.(notifyOnSignal|'
            r'cancelSignalNotification)', r'bus\.Bus\.dbus_(Add|Remove)Match'],
    'C13': [r'bus\.Bus\.(dbus_RequestName|dbus_ReleaseName|'
            r'clientDisconnected|dbus_GetNameOwner|dbus_ListQueuedOwners|'
            r'dbus_NameHasOwner|dbus_ListNames)',
            r'client\.DBusClientConnection\.(requestBusName|'
            r'releaseBusName)'],
    'C14': [r'bus\.BusProtocol\..*', r'bus\.Bus\..*'],
    'C15': [r'interface\..*', r'introspection\..*'],
    'C16': [r'objects\.DBusObjectHandler\.(exportObject|unexportObject|'
            r'getManagedObjects|handleMethodCallMessage)',
            r'introspection\.generateIntrospectionXML'],
    'C17': [r'objects\.DBusProperty\..*',
            r'objects\.DBusObject\.(_dbus_Property\w+|getAllProperties|'
            r'_getProperty|__init__)', r'interface\.Property\..*'],
    'C18': [r'marshal\.validate\w+', r'message\.\w+\.__init__'],
    'C19': [r'marshal\.(genCompleteTypes|sigFromPy|marshal_variant|'
            r'unmarshal_variant|marshal|unmarshal)',
            r'interface\.(Method|Signal)\..*'],
    'C20': [r'protocol\.BasicDBusProtocol\.(sendMessage|'
            r'fileDescriptorReceived|dataReceived|rawDBusMessageReceived)',
            r'marshal\.(marshal_unix_fd|unmarshal_unix_fd|marshal|unmarshal)',
            r'message\.DBusMessage\._marshal', r'message\.parseMessage',
            r'client\.DBusClientConnection\.callRemote'],
}


# Of what is reachable from the entry points, the functions a property is
# about (None = all).  C18 is about the validators and the constructors that
# call them - not about the codec the constructors also run.
def _c18_only(prog):
    from . import callgraph as CG
    vroots = [fi for q, fi in prog.all_funcs.items()
              if fi.parent is None and fi.module.name == 'marshal' and
              fi.name.startswith('validate')]
    from_validators = set(CG.reachable(prog, vroots))
    return lambda fi: fi.module.name == 'message' or \
        fi.qualname in from_validators or (
            fi.parent is not None and fi.parent.qualname in from_validators)


# pid -> function(prog) -> predicate(FuncInfo)
REACH_ONLY = {
    'C18': _c18_only,
}
