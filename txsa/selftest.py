"""Mutation self-test of the checkers (both directions).

    python -m txsa.selftest [--prop C01] [--jobs 16] [--list]

Each mutant is a textual edit of one file of the *current* tree, applied to a
scratch copy under tempfile.mkdtemp() (outside /repo and /verif, removed
afterwards).  kind 'break' mutants must make the named check exit 1 with a
finding whose key starts with one of the expected rule ids; kind 'benign'
variants (behaviour-preserving rewrites) must leave it at exit 0.  A mutant
whose anchor text is not in the current tree is reported as inapplicable.
The self-test never runs the txdbus test-suite.
"""
import argparse
import json
import multiprocessing
import os
import re
import shutil
import subprocess
import sys
import tempfile

VERIF = os.path.dirname(os.path.dirname(os.path.abspath(__file__)))


def load_corpus():
    from .mutants import MUTANTS
    return MUTANTS


def run_one(args):
    mut, src_root = args
    mid = mut['id']
    if mut.get('revert'):
        return run_revert(mut, src_root)
    if mut.get('patch'):
        return run_patch(mut, src_root)
    path = os.path.join(src_root, mut['file'])
    with open(path, encoding='utf-8') as f:
        text = f.read()
    edits = mut['edits']
    new = text
    for old, rep in edits:
        if new.count(old) < 1:
            return mid, 'inapplicable', 'anchor text not found: %r' % old[:60]
        new = new.replace(old, rep, 1)
    try:
        compile(new, path, 'exec')
    except SyntaxError as e:
        return mid, 'error', 'mutant does not compile: %s' % e
    tmp = tempfile.mkdtemp(prefix='txsa-mut-')
    try:
        shutil.copytree(os.path.join(src_root, 'txdbus'),
                        os.path.join(tmp, 'txdbus'))
        with open(os.path.join(tmp, mut['file']), 'w', encoding='utf-8') as f:
            f.write(new)
        results = []
        for pid in mut['props']:
            env = dict(os.environ, TXSA_EVIDENCE_OUT=os.path.join(
                tmp, 'ev-%s.json' % pid), TXSA_NO_REPLAY='1')
            pr = subprocess.run(
                [os.path.join(VERIF, 'check'), pid, '--tier', 'quick', '--src', tmp],
                capture_output=True, text=True, env=env, timeout=300)
            keys = re.findall(r'^FINDING (\S+)', pr.stdout, re.M)
            results.append((pid, pr.returncode, keys, pr.stdout[-800:]))
        if mut['kind'] == 'break':
            ok = False
            why = []
            for pid, rc, keys, out in results:
                exp = mut.get('expect', [])
                hit = [k for k in keys if not exp or
                       any(k.startswith(e) for e in exp)]
                if rc == 1 and hit:
                    ok = True
                    why.append('%s fired: %s' % (pid, hit[0]))
                else:
                    why.append('%s rc=%d keys=%s' % (pid, rc, keys[:3]))
            return mid, 'caught' if ok else 'MISSED', '; '.join(why)
        else:
            bad = [(pid, rc, keys) for pid, rc, keys, out in results
                   if rc != 0]
            if bad:
                return mid, 'FALSE-ALARM', str(bad)[:400]
            return mid, 'silent', ''
    finally:
        shutil.rmtree(tmp, ignore_errors=True)


def run_patch(mut, src_root):
    """Benign variant given as a unified diff against the current tree."""
    mid = mut['id']
    tmp = tempfile.mkdtemp(prefix='txsa-mut-')
    try:
        shutil.copytree(os.path.join(src_root, 'txdbus'),
                        os.path.join(tmp, 'txdbus'))
        pr = subprocess.run(['patch', '-s', '-p1', '-i', mut['patch']],
                            cwd=tmp, capture_output=True, text=True)
        if pr.returncode != 0:
            return mid, 'inapplicable', 'patch does not apply: %s' % (
                pr.stdout + pr.stderr)[-200:]
        bad = []
        fired = []
        for pid in mut['props']:
            env = dict(os.environ, TXSA_EVIDENCE_OUT=os.path.join(
                tmp, 'ev-%s.json' % pid), TXSA_NO_REPLAY='1')
            pr = subprocess.run(
                [os.path.join(VERIF, 'check'), pid, '--tier', 'quick',
                 '--src', tmp],
                capture_output=True, text=True, env=env, timeout=300)
            keys = re.findall(r'^FINDING (\S+)', pr.stdout, re.M)
            if pr.returncode != 0:
                bad.append((pid, pr.returncode, keys[:3]))
            if pr.returncode == 1 and keys:
                fired.append('%s fired: %s' % (pid, keys[0]))
        if mut['kind'] == 'break':
            if fired:
                return mid, 'caught', '; '.join(fired)
            return mid, 'MISSED', str(bad)[:300]
        if bad:
            return mid, 'FALSE-ALARM', str(bad)[:400]
        return mid, 'silent', ''
    finally:
        shutil.rmtree(tmp, ignore_errors=True)


def run_revert(mut, src_root):
    """Pre-fix twin: the tree with one `fix:` commit reverted."""
    mid = mut['id']
    commits = mut['revert'] if isinstance(mut['revert'], list) \
        else [mut['revert']]
    tmp = tempfile.mkdtemp(prefix='txsa-mut-')
    try:
        shutil.copytree(os.path.join(src_root, 'txdbus'),
                        os.path.join(tmp, 'txdbus'))
        for commit in commits:        # newest first
            pr = subprocess.run(['git', '-C', src_root, 'show', '--format=',
                                 commit, '--', 'txdbus'],
                                capture_output=True, text=True)
            if pr.returncode != 0 or not pr.stdout.strip():
                return mid, 'inapplicable', 'commit %s not found' % commit
            ap = subprocess.run(['patch', '-R', '-p1', '-s', '-d', tmp],
                                input=pr.stdout, capture_output=True,
                                text=True)
            if ap.returncode != 0:
                return mid, 'inapplicable', \
                    'reverse patch of %s does not apply: %s' % (
                        commit, ap.stdout[-200:])
        ok = False
        why = []
        for pid in mut['props']:
            env = dict(os.environ, TXSA_EVIDENCE_OUT=os.path.join(
                tmp, 'ev-%s.json' % pid))
            r = subprocess.run([os.path.join(VERIF, 'check'), pid, '--tier',
                                'quick', '--src', tmp],
                               capture_output=True, text=True,
                               env=env, timeout=300)
            keys = re.findall(r'^FINDING (\S+)', r.stdout, re.M)
            exp = mut.get('expect', [])
            hit = [k for k in keys if not exp or
                   any(k.startswith(e) for e in exp)]
            if r.returncode == 1 and hit:
                ok = True
                why.append('%s fired: %s' % (pid, hit[0]))
            else:
                why.append('%s rc=%d keys=%s' % (pid, r.returncode,
                                                  keys[:3]))
        return mid, 'caught' if ok else 'MISSED', '; '.join(why)
    finally:
        shutil.rmtree(tmp, ignore_errors=True)


def run_subset(pid, src_root, jobs=16):
    """Rule liveness for one property (used by the thorough tier): apply the
    property's mutants to scratch copies of the CURRENT tree."""
    corpus = [dict(m, props=[pid]) for m in load_corpus()
              if pid in m['props']]
    if not corpus:
        return {'mutants': 0}
    with multiprocessing.Pool(min(jobs, len(corpus))) as pool:
        res = pool.map(run_one, [(m, src_root) for m in corpus])
    summary = {}
    for mid, status, why in res:
        summary[status] = summary.get(status, 0) + 1
    return {'mutants': len(corpus), 'summary': summary,
            'results': [{'mutant': mid, 'status': status,
                         'detail': why[:160]} for mid, status, why in res]}


def main(argv=None):
    ap = argparse.ArgumentParser()
    ap.add_argument('--prop')
    ap.add_argument('--jobs', type=int, default=16)
    ap.add_argument('--list', action='store_true')
    ap.add_argument('--src', default=os.environ.get('TXDBUS_SRC', '/repo'))
    ap.add_argument('--id')
    a = ap.parse_args(argv)
    corpus = load_corpus()
    if a.prop:
        corpus = [m for m in corpus if a.prop.upper() in m['props']]
    if a.id:
        corpus = [m for m in corpus if m['id'] == a.id]
    if a.list:
        for m in corpus:
            print(m['id'], m['kind'], m['props'], m.get('note', ''))
        return 0
    with multiprocessing.Pool(a.jobs) as pool:
        res = pool.map(run_one, [(m, a.src) for m in corpus])
    bad = 0
    summary = {}
    for mid, status, why in res:
        summary[status] = summary.get(status, 0) + 1
        if status in ('MISSED', 'FALSE-ALARM', 'error'):
            bad += 1
        print('%-40s %-12s %s' % (mid, status, why[:300]))
    print('SELFTEST', json.dumps(summary, sort_keys=True))
    return 1 if bad else 0


if __name__ == '__main__':
    sys.exit(main())
