"""Oracles transcribed from the D-Bus specification (the trusted base).

Sections: "Type System", "Marshaling (Wire Format)", "Message Protocol",
"Authentication Protocol", "Message Bus: Names", "Message Bus Message Routing
(Match Rules)", "Introspection Data Format", and the standard interfaces
org.freedesktop.DBus.{Properties,ObjectManager}.  See DESIGN.md Appendix A.
"""

# A.1 type code -> (alignment, struct letter or None, fixed size or None)
TYPES = {
    'y': (1, 'B', 1),
    'b': (4, 'I', 4),
    'n': (2, 'h', 2),
    'q': (2, 'H', 2),
    'i': (4, 'i', 4),
    'u': (4, 'I', 4),
    'x': (8, 'q', 8),
    't': (8, 'Q', 8),
    'd': (8, 'd', 8),
    'h': (4, 'I', 4),
    's': (4, None, None),
    'o': (4, None, None),
    'g': (1, None, None),
    'a': (4, None, None),
    '(': (8, None, None),
    '{': (8, None, None),
    'v': (1, None, None),
}
FIXED = [c for c, (_, f, _s) in TYPES.items() if f is not None]
# length prefix letter, codec of the payload
STRINGLIKE = {'s': ('I', 'utf-8'), 'o': ('I', 'utf-8'), 'g': ('B', 'ascii')}
ARRAY_LEN_FMT = 'I'
HEADER_ALIGN = 8

TYPE_NAMES = {
    'BYTE': 'y', 'BOOLEAN': 'b', 'INT16': 'n', 'UINT16': 'q', 'INT32': 'i',
    'UINT32': 'u', 'INT64': 'x', 'UINT64': 't', 'DOUBLE': 'd', 'STRING': 's',
    'OBJECT_PATH': 'o', 'SIGNATURE': 'g', 'ARRAY': 'a', 'STRUCT': '(',
    'VARIANT': 'v', 'DICT_ENTRY': '{', 'UNIX_FD': 'h',
}

# A.2 fixed header 'yyyyuua(yv)'
HEADER_SIGNATURE = 'yyyyuua(yv)'
HEADER_SLOTS = ['endian', 'type', 'flags', 'version', 'body_length', 'serial',
                'fields']
FLAG_NO_REPLY_EXPECTED = 0x1
FLAG_NO_AUTO_START = 0x2
PROTOCOL_VERSION = 1
MAX_MESSAGE = 2 ** 27
MAX_ARRAY = 2 ** 26
BODY_LEN_OFFSET = 4
SERIAL_OFFSET = 8
FIELDS_LEN_OFFSET = 12
FIRST_FIELD_OFFSET = 16

# A.3 header fields: code -> (name, type)
HEADER_FIELDS = {
    1: ('path', 'o'),
    2: ('interface', 's'),
    3: ('member', 's'),
    4: ('error_name', 's'),
    5: ('reply_serial', 'u'),
    6: ('destination', 's'),
    7: ('sender', 's'),
    8: ('signature', 'g'),
    9: ('unix_fds', 'u'),
}
MESSAGE_TYPES = {1: 'method_call', 2: 'method_return', 3: 'error',
                 4: 'signal'}
REQUIRED_FIELDS = {1: {1, 3}, 2: {5}, 3: {4, 5}, 4: {1, 2, 3}}

# A.4 / property C06
MAX_REJECTS = 5
MAX_AUTH_LINE = 16384
SERVER_STATES = ('WaitingForAuth', 'WaitingForData', 'WaitingForBegin')

# A.6 names
REQ_ALLOW_REPLACEMENT = 0x1
REQ_REPLACE_EXISTING = 0x2
REQ_DO_NOT_QUEUE = 0x4
REQ_REPLY = {'PRIMARY_OWNER': 1, 'IN_QUEUE': 2, 'EXISTS': 3,
             'ALREADY_OWNER': 4}
REL_REPLY = {'RELEASED': 1, 'NON_EXISTENT': 2, 'NOT_OWNER': 3}


def request_name(exists, is_owner, replace, owner_allows, no_queue):
    """-> (reply, caller position afterwards: 'head'|'queued'|'absent')"""
    if not exists:
        return 1, 'head'
    if is_owner:
        return 4, 'head'
    if replace and owner_allows:
        return 1, 'head'
    if no_queue:
        return 3, 'absent'
    return 2, 'queued'


# A.7 match-rule keys the property names
MATCH_KEYS = ['type', 'interface', 'member', 'path', 'path_namespace',
              'destination', 'arg', 'arg_path']

# A.9
ERR_UNKNOWN_OBJECT = 'org.freedesktop.DBus.Error.UnknownObject'
ERR_UNKNOWN_METHOD = 'org.freedesktop.DBus.Error.UnknownMethod'
ERR_INVALID_ARGS = 'org.freedesktop.DBus.Error.InvalidArgs'
ERR_PY_PREFIX = 'org.txdbus.PythonException.'
ERR_INVALID_NAME = 'org.txdbus.InvalidErrorName'

BUS_NAME = 'org.freedesktop.DBus'
