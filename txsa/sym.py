"""Path-sensitive abstract interpreter over the AST (term domain).

This is the shared "resolved view" of a function used by the rules: for every
structural path through a function body it yields
    * the path condition  (tuple of (term, polarity)),
    * the trace of effects (calls with their abstract arguments, attribute /
      subscript stores, deletions, yields, loop summaries),
    * the outcome (return value term | raised term | fallthrough),
    * the final abstract store / heap.
Values are *terms* (nested tuples): constants are folded, everything else stays
symbolic.  There is no solver: a branch is pruned only when its test folds to a
constant or repeats / contradicts a test already taken on the same path
(ESP-style property simulation).  Loops are summarised (body analysed once from
a havoc state; `+=` accumulators and list appends become star terms).

Nothing from the analysed program is imported or executed.
"""
import ast
import itertools
import struct

from .loader import AnalysisError, dotted, src_of

# ---------------------------------------------------------------------------
# terms

def C(v):
    return ('const', v)


NONE = C(None)
TRUE = C(True)
FALSE = C(False)


def is_const(t):
    return isinstance(t, tuple) and t and t[0] == 'const'


def kind(t):
    return t[0] if isinstance(t, tuple) and t else None


_uid = itertools.count(1)


def fresh(tag, *info):
    return ('fresh', tag, next(_uid)) + tuple(info)


def term_str(t, depth=0):
    """Readable rendering for reports."""
    if not isinstance(t, tuple) or not t:
        return repr(t)
    k = t[0]
    if depth > 6:
        return '...'
    r = lambda x: term_str(x, depth + 1)
    if k == 'const':
        return repr(t[1])
    if k == 'param':
        return t[1]
    if k == 'fresh':
        return '?%s%d' % (t[1], t[2])
    if k == 'attr':
        return '%s.%s' % (r(t[1]), t[2])
    if k == 'call':
        fn = t[1] or r(t[2])
        args = [r(a) for a in t[3]] + ['%s=%s' % (n, r(v)) for n, v in t[4]]
        return '%s(%s)' % (fn, ', '.join(args))
    if k == 'binop':
        return '(%s %s %s)' % (r(t[2]), t[1], r(t[3]))
    if k == 'unop':
        return '(%s %s)' % (t[1], r(t[2]))
    if k == 'cmp':
        return '(%s %s %s)' % (r(t[2]), t[1], r(t[3]))
    if k == 'boolop':
        return '(' + (' %s ' % t[1]).join(r(x) for x in t[2]) + ')'
    if k == 'ifexp':
        return '(%s if %s else %s)' % (r(t[2]), r(t[1]), r(t[3]))
    if k == 'sub':
        return '%s[%s]' % (r(t[1]), r(t[2]))
    if k == 'slice':
        return '%s:%s' % ('' if t[1] == NONE else r(t[1]),
                          '' if t[2] == NONE else r(t[2]))
    if k in ('tuple', 'list', 'set'):
        o, c = {'tuple': '()', 'list': '[]', 'set': '{}'}[k]
        return o + ', '.join(r(x) for x in t[1]) + c
    if k == 'dict':
        if len(t[1]) > 4:
            return '{..%d entries..}' % len(t[1])
        return '{' + ', '.join('%s: %s' % (r(a), r(b)) for a, b in t[1]) + '}'
    if k == 'starseq':
        return 'Σseq%s' % (t[1][1:],)
    if k == 'prefix':
        return '<prefix %s>' % (t[2],)
    if k == 'comp':
        return '<%scomp %s for %s>' % (t[1], ', '.join(r(x) for x in t[2]),
                                       ', '.join(r(x) for x in t[3]))
    if k == 'elem':
        return 'elem(%s)' % r(t[1])
    if k in ('loopvar', 'loopout'):
        return '%s<%s>' % (k, t[2])
    if k == 'star':
        return 'Σ%s' % (t[1][1:],)
    if k == 'lambda':
        return '<lambda@%s:%s>' % (t[1], t[2])
    if k == 'inst':
        return '<inst %s>' % t[1]
    if k == 'free':
        return '~' + t[1]
    if k in ('func', 'class', 'ext', 'builtin', 'module'):
        return t[1]
    if k == 'bound':
        return '%s.<%s>' % (r(t[1]), t[2])
    if k == 'global':
        return '%s.%s' % (t[1], t[2])
    if k == 'funcref':
        return '<def %s>' % t[1]
    if k == 'star':
        return 'Σ%s' % (t[1],)
    if k in ('loopvar', 'loopout', 'elem'):
        return '%s<%s>' % (k, ','.join(str(x) if not isinstance(x, tuple)
                                         else r(x) for x in t[1:]))
    if k == 'item':
        return r(t[1])
    if k == 'splice':
        return '*' + r(t[1])
    return '%s(%s)' % (k, ', '.join(r(x) if isinstance(x, tuple) else repr(x)
                                    for x in t[1:]))


def walk_term(t):
    """Pre-order iteration over all sub-terms."""
    stack = [t]
    while stack:
        x = stack.pop()
        if isinstance(x, tuple):
            if x and isinstance(x[0], str):
                yield x
            stack.extend(y for y in x if isinstance(y, tuple))


def contains(t, pred):
    return any(pred(x) for x in walk_term(t))


# ---------------------------------------------------------------------------
# state

class State:
    __slots__ = ('store', 'heap', 'cond', 'trace', 'falsy', 'truthy',
                 'cbase', 'cut')

    def __init__(self, store=None, heap=None, cond=(), trace=(),
                 falsy=frozenset(), truthy=frozenset(), cbase=0, cut=None):
        self.store = store if store is not None else {}
        self.heap = heap if heap is not None else {}
        self.cond = cond
        self.trace = trace
        self.falsy = falsy
        self.truthy = truthy
        # facts in cond[:cbase] about attribute reads were established
        # before a loop whose body calls out: they are not reused inside it
        self.cbase = cbase
        # term -> index into cond: the container denoted by the term was
        # mutated in place there, earlier truthiness facts about it are void
        self.cut = cut if cut is not None else {}

    def copy(self):
        return State(dict(self.store), dict(self.heap), self.cond, self.trace,
                     self.falsy, self.truthy, self.cbase, dict(self.cut))

    def emit(self, ev):
        self.trace = self.trace + (ev,)


class Path:
    """One explored path of a function (or of a loop body)."""
    __slots__ = ('cond', 'trace', 'outcome', 'value', 'state', 'deltas')

    def __init__(self, state, outcome, value):
        self.cond = state.cond
        self.trace = state.trace
        self.outcome = outcome   # 'return' | 'raise' | 'fall' | 'break' |
        #                          'continue'
        self.value = value
        self.state = state
        self.deltas = {}

    def calls(self, deep=True):
        return list(iter_calls(self.trace, deep))

    def __repr__(self):
        return '<Path %s %s |cond|=%d |trace|=%d>' % (
            self.outcome, term_str(self.value) if self.value else '',
            len(self.cond), len(self.trace))


def iter_events(trace, deep=True):
    for ev in trace:
        yield ev
        if deep and ev[0] == 'loop':
            for bp in ev[4]:
                for e in iter_events(bp.trace, deep):
                    yield e


def iter_calls(trace, deep=True):
    for ev in iter_events(trace, deep):
        if ev[0] == 'call':
            yield ev[1]


# ---------------------------------------------------------------------------
# folding helpers

_BINOPS = {
    ast.Add: ('+', lambda a, b: a + b),
    ast.Sub: ('-', lambda a, b: a - b),
    ast.Mult: ('*', lambda a, b: a * b),
    ast.Mod: ('%', lambda a, b: a % b),
    ast.FloorDiv: ('//', lambda a, b: a // b),
    ast.Div: ('/', lambda a, b: a / b),
    ast.Pow: ('**', lambda a, b: a ** b),
    ast.BitAnd: ('&', lambda a, b: a & b),
    ast.BitOr: ('|', lambda a, b: a | b),
    ast.BitXor: ('^', lambda a, b: a ^ b),
    ast.LShift: ('<<', lambda a, b: a << b),
    ast.RShift: ('>>', lambda a, b: a >> b),
}
_CMPOPS = {
    ast.Eq: ('==', lambda a, b: a == b),
    ast.NotEq: ('!=', lambda a, b: a != b),
    ast.Lt: ('<', lambda a, b: a < b),
    ast.LtE: ('<=', lambda a, b: a <= b),
    ast.Gt: ('>', lambda a, b: a > b),
    ast.GtE: ('>=', lambda a, b: a >= b),
    ast.Is: ('is', lambda a, b: a is b),
    ast.IsNot: ('is not', lambda a, b: a is not b),
    ast.In: ('in', lambda a, b: a in b),
    ast.NotIn: ('not in', lambda a, b: a not in b),
}
_NEG = {'==': '!=', '!=': '==', '<': '>=', '>=': '<', '>': '<=', '<=': '>',
        'is': 'is not', 'is not': 'is', 'in': 'not in', 'not in': 'in'}

_PURE_BUILTINS = {
    'len': len, 'ord': ord, 'chr': chr, 'bool': bool, 'int': int, 'str': str,
    'abs': abs, 'min': min, 'max': max, 'tuple': tuple, 'sorted': sorted,
    'bytes': bytes, 'repr': repr, 'float': float, 'list': list,
    'reversed': lambda x: list(reversed(x)), 'set': set, 'dict': dict,
    'sum': sum, 'any': any, 'all': all, 'range': lambda *a: list(range(*a)),
    'enumerate': lambda x: list(enumerate(x)), 'zip': lambda *a: list(zip(*a)),
}


def to_py(t):
    """Term -> python constant (only for fully constant structures)."""
    k = kind(t)
    if k == 'const':
        return t[1]
    if k == 'tuple':
        return tuple(to_py(x) for x in t[1])
    if k == 'list':
        out = []
        for x in t[1]:
            if kind(x) in ('splice', 'starseq', 'prefix'):
                raise ValueError
            out.append(to_py(x[1]) if kind(x) == 'item' else to_py(x))
        return out
    if k == 'dict':
        return {to_py(a): to_py(b) for a, b in t[1]}
    if k == 'set':
        return {to_py(x) for x in t[1]}
    raise ValueError(t)


def from_py(v):
    if isinstance(v, tuple):
        return ('tuple', tuple(from_py(x) for x in v))
    if isinstance(v, list):
        return ('list', tuple(('item', from_py(x)) for x in v))
    if isinstance(v, dict):
        return ('dict', tuple((from_py(a), from_py(b)) for a, b in v.items()))
    if isinstance(v, (set, frozenset)):
        return ('set', tuple(sorted((from_py(x) for x in v), key=repr)))
    return C(v)


def try_py(t):
    try:
        return True, to_py(t)
    except (ValueError, TypeError):
        return False, None


def truth(t, st=None):
    """True / False / None (unknown) for a term's truthiness."""
    k = kind(t)
    if k == 'const':
        return bool(t[1])
    if k in ('tuple', 'set'):
        return len(t[1]) > 0
    if k == 'list':
        items = t[1]
        if any(kind(x) == 'item' for x in items):
            return True
        if not items:
            return False
        return None
    if k == 'dict':
        return len(t[1]) > 0
    if k in ('func', 'class', 'funcref', 'bound', 'module', 'ext', 'builtin',
             'lambda', 'inst'):
        return True
    if k == 'unop' and t[1] == 'not':
        v = truth(t[2], st)
        return None if v is None else (not v)
    if st is not None:
        if t in st.falsy:
            return False
        if t in st.truthy:
            return True
        base = st.cbase if st.cbase and _reads_attr(t) else 0
        if st.cut and t in st.cut:
            base = max(base, st.cut[t])
        for c, pol in st.cond[base:]:
            if c == t:
                return pol
    return None


def _reads_attr(t):
    return contains(t, lambda x: kind(x) == 'attr')


def _body_calls_out(body):
    for st in body:
        for n in ast.walk(st):
            if isinstance(n, ast.Call) and not (
                    isinstance(n.func, ast.Name) and (
                        n.func.id in _PURE_BUILTINS or
                        n.func.id in _PURE_PREDICATES)):
                return True
    return False


def static_type(t):
    """Coarse type of a term when it is evident: 'int' | 'text' (str or
    bytes) | None."""
    k = kind(t)
    if k == 'const':
        v = t[1]
        if isinstance(v, bool):
            return None
        if isinstance(v, int):
            return 'int'
        if isinstance(v, (str, bytes)):
            return 'text'
        return None
    if k == 'sub' and kind(t[1]) == 'call' and kind(t[1][2]) == 'attr' and \
            t[1][2][2] in ('split', 'rsplit', 'partition', 'splitlines') and \
            kind(t[2]) != 'slice':
        return 'text'
    if k == 'call':
        if t[1] in ('binascii.hexlify', 'binascii.unhexlify', 'codecs.encode',
                    'codecs.decode', 'str', 'repr', 'bytes'):
            return 'text'
        if t[1] == 'len':
            return 'int'
        if kind(t[2]) == 'attr' and t[2][2] in (
                'strip', 'encode', 'decode', 'lower', 'upper', 'join',
                'hexdigest', 'digest'):
            return 'text'
    if k == 'len':
        return 'int'
    return None


# ---------------------------------------------------------------------------
# affine normal form over opaque atoms (used by size/offset rules)

def affine(t, falsy=frozenset()):
    """Return {atom_term or 1: coeff}; atoms are opaque terms.  len(x) for x
    known falsy is 0."""
    out = {}

    def add(atom, c):
        if c == 0:
            return
        out[atom] = out.get(atom, 0) + c
        if out[atom] == 0:
            del out[atom]

    def go(x, c):
        k = kind(x)
        if k == 'const' and isinstance(x[1], (int, bool)) \
                and not isinstance(x[1], bool):
            add(1, c * x[1])
        elif k == 'const' and isinstance(x[1], bool):
            add(1, c * int(x[1]))
        elif k == 'binop' and x[1] == '+':
            go(x[2], c)
            go(x[3], c)
        elif k == 'binop' and x[1] == '-':
            go(x[2], c)
            go(x[3], -c)
        elif k == 'binop' and x[1] == '*' and is_const(x[2]) \
                and isinstance(x[2][1], int):
            go(x[3], c * x[2][1])
        elif k == 'binop' and x[1] == '*' and is_const(x[3]) \
                and isinstance(x[3][1], int):
            go(x[2], c * x[3][1])
        elif k == 'unop' and x[1] == '-':
            go(x[2], -c)
        elif k == 'call' and x[1] == 'len' and len(x[3]) == 1:
            a = x[3][0]
            if a in falsy:
                return
            ok, v = try_py(a)
            if ok:
                try:
                    add(1, c * len(v))
                    return
                except TypeError:
                    pass
            if kind(a) == 'list' and all(kind(i) == 'item' for i in a[1]):
                add(1, c * len(a[1]))
                return
            add(('len', a), c)
        elif k == 'len':
            if x[1] in falsy:
                return
            add(x, c)
        else:
            add(x, c)

    go(t, 1)
    return out


def affine_eq(a, b, falsy=frozenset()):
    return affine(('binop', '-', a, b), falsy) == {}


def affine_str(d):
    if not d:
        return '0'
    parts = []
    for a, c in sorted(d.items(), key=lambda kv: repr(kv[0])):
        if a == 1:
            parts.append(str(c))
        else:
            parts.append(('%d*' % c if c != 1 else '') + term_str(a))
    return ' + '.join(parts)


# ---------------------------------------------------------------------------

class Budget(AnalysisError):
    pass


_MUTATORS = {'append', 'extend', 'insert', 'pop', 'remove', 'clear', 'update',
             'add', 'reverse', 'sort', 'discard', 'setdefault', 'popitem'}

_EXC_CATCH_ALL = {'Exception', 'BaseException'}


_NO_RAISE_BUILTINS = ('type', 'isinstance', 'issubclass', 'callable', 'id')
_RESULT_CACHES = ('functools.lru_cache', 'functools.cache')


class Interp:
    """Interpret one function (with optional inlining) over the term domain."""

    def __init__(self, prog, inline=None, max_paths=6000, max_depth=5,
                 fork_boolop=False, exc_edges=True, env=None, self_cls=None,
                 unroll_const=False, no_inline=(), mark_assumes=False):
        self.prog = prog
        # record every assumption in the trace too (('assume', term, pol)),
        # for rules that need to know WHERE on the path a test was made
        self.mark_assumes = mark_assumes
        no_inline = frozenset(no_inline)   # analysed as units (summaries)
        self.self_cls = self_cls   # ClassInfo 'self' is analysed as
        self.unroll_const = unroll_const  # unroll loops over constant seqs
        user_inline = inline or (lambda qn, depth: False)
        known = prog.known_funcs()

        def _inline(qn, depth):
            # functions the rules know by name are analysed as units; a
            # function that did not exist when the rules were written (a
            # helper extracted by a refactoring) is transparent
            if qn in no_inline:
                return False
            return user_inline(qn, depth) or (
                known is not None and qn not in known and depth < 4 and
                not prog.is_renamed_closure(qn))
        self.inline = _inline
        self.max_paths = max_paths
        self.max_depth = max_depth
        self.fork_boolop = fork_boolop
        self.exc_edges = exc_edges
        self.env = env or {}       # name -> term overriding module globals
        self.npaths = 0
        self._stack = []           # FuncInfo stack (inlining)
        self._try = 0              # dynamic depth of try-with-handlers
        self._loop_ids = itertools.count(1)

    # -- public ------------------------------------------------------------

    def run(self, fi, args=None, state=None, self_term=None):
        """Explore fi.  args: dict param -> term (others become ('param',n)).
        Returns list of Path with outcome in {'return','raise','fall'}."""
        st = state.copy() if state is not None else State()
        a = fi.node.args
        args = dict(args or {})
        allp = a.posonlyargs + a.args + a.kwonlyargs
        defaults = {}
        pos = a.posonlyargs + a.args
        for p, d in zip(pos[len(pos) - len(a.defaults):], a.defaults):
            defaults[p.arg] = d
        for p, d in zip(a.kwonlyargs, a.kw_defaults):
            if d is not None:
                defaults[p.arg] = d
        for i, p in enumerate(allp):
            if p.arg in args:
                st.store[p.arg] = args[p.arg]
            elif i == 0 and fi.is_method and self_term is not None:
                st.store[p.arg] = self_term
            else:
                st.store[p.arg] = ('param', p.arg)
        if a.vararg:
            st.store[a.vararg.arg] = args.get(a.vararg.arg,
                                              ('param', '*' + a.vararg.arg))
        if a.kwarg:
            st.store[a.kwarg.arg] = args.get(a.kwarg.arg,
                                             ('param', '**' + a.kwarg.arg))
        self._stack.append(fi)
        try:
            outs = self.exec_block(fi.node.body, st)
        finally:
            self._stack.pop()
        paths = []
        for s, oc, v in outs:
            if oc == 'normal':
                paths.append(Path(s, 'fall', NONE))
            elif oc in ('return', 'raise'):
                paths.append(Path(s, oc, v))
            else:
                raise AnalysisError('%s: stray %s outside loop'
                                    % (fi.qualname, oc))
        return paths

    # -- context -----------------------------------------------------------

    @property
    def fi(self):
        return self._stack[-1]

    def _site(self, node):
        return (self.fi.qualname, getattr(node, 'lineno', 0),
                getattr(node, 'col_offset', 0))

    def _count(self, n=1):
        self.npaths += n
        if self.npaths > self.max_paths:
            raise Budget('path budget exceeded in %s' % self._stack[0].qualname)

    # -- statements --------------------------------------------------------
    # exec_* return list of (state, outcome, value) with outcome in
    # normal/return/raise/break/continue

    def exec_block(self, stmts, st):
        cur = [st]
        done = []
        for s in stmts:
            nxt = []
            for c in cur:
                for r in self.exec_stmt(s, c):
                    if r[1] == 'normal':
                        nxt.append(r[0])
                    else:
                        done.append(r)
            cur = nxt
            if not cur:
                break
        return [(c, 'normal', None) for c in cur] + done

    def exec_stmt(self, s, st):
        m = getattr(self, 'st_' + type(s).__name__, None)
        if m is None:
            raise AnalysisError('%s: unsupported statement %s at line %d' % (
                self.fi.qualname, type(s).__name__, s.lineno))
        return m(s, st)

    def _ev(self, node, st, then):
        """Evaluate node; for each normal result call then(state, value) ->
        list of results; propagate raises."""
        out = []
        for s2, v, exc in self.eval(node, st):
            if exc is not None:
                out.append((s2, 'raise', exc))
            else:
                out.extend(then(s2, v))
        return out

    def st_Expr(self, s, st):
        return self._ev(s.value, st, lambda s2, v: [(s2, 'normal', None)])

    def st_Pass(self, s, st):
        return [(st, 'normal', None)]

    def st_Import(self, s, st):
        for a in s.names:
            local = a.asname or a.name.split('.')[0]
            st.store[local] = ('ext', a.name if a.asname else
                               a.name.split('.')[0])
        return [(st, 'normal', None)]

    def st_ImportFrom(self, s, st):
        for a in s.names:
            d = '%s.%s' % (s.module, a.name)
            r = self.prog.resolve_dotted(d)
            st.store[a.asname or a.name] = self._resolved_to_term(r) \
                if r else ('ext', d)
        return [(st, 'normal', None)]

    def st_Global(self, s, st):
        return [(st, 'normal', None)]

    st_Nonlocal = st_Global

    def st_Assert(self, s, st):
        def then(s2, v):
            s2.emit(('assert', v, self._site(s)))
            return [(s2, 'normal', None)]
        return self._ev(s.test, st, then)

    def st_Return(self, s, st):
        if s.value is None:
            return [(st, 'return', NONE)]
        return self._ev(s.value, st, lambda s2, v: [
            (s2, 'return', self._capture(v, s2))])

    def _capture(self, v, st):
        """A nested function that leaves its defining function takes the
        variables it reads from there with it (a closure): the values are kept
        in the term and bound again when it is called elsewhere."""
        if kind(v) != 'funcref' or (len(v) > 2 and kind(v[2]) == 'env'):
            return v
        sub = self.prog.all_funcs.get(v[1])
        if sub is None or sub.parent is not self.fi:
            return v
        own = set(sub.params())
        for n in ast.walk(sub.node):
            if isinstance(n, ast.Name) and isinstance(n.ctx, ast.Store):
                own.add(n.id)
        env = {}
        for n in ast.walk(sub.node):
            if isinstance(n, ast.Name) and isinstance(n.ctx, ast.Load) and \
                    n.id not in own and n.id in st.store:
                env[n.id] = st.store[n.id]
        return ('funcref', v[1], ('env', tuple(sorted(env.items()))))

    def st_Raise(self, s, st):
        if s.exc is None:
            return [(st, 'raise', ('reraise',))]

        def then(s2, v):
            s2.emit(('raise', v, self._site(s)))
            return [(s2, 'raise', v)]
        return self._ev(s.exc, st, then)

    def st_Break(self, s, st):
        return [(st, 'break', None)]

    def st_Continue(self, s, st):
        return [(st, 'continue', None)]

    def st_FunctionDef(self, s, st):
        sub = self.fi.nested.get(s.name)
        if sub is None:
            # nested def of an inlined / differently indexed function
            qn = '%s.%s' % (self.fi.qualname, s.name)
            sub = self.prog.all_funcs.get(qn)
        qn = sub.qualname if sub else '%s.%s' % (self.fi.qualname, s.name)
        st.store[s.name] = ('funcref', qn, self._site(s))
        st.emit(('def', qn, self._site(s)))
        return [(st, 'normal', None)]

    def st_ClassDef(self, s, st):
        st.store[s.name] = fresh('localclass')
        return [(st, 'normal', None)]

    def st_Delete(self, s, st):
        outs = [st]
        for t in s.targets:
            nxt = []
            for c in outs:
                if isinstance(t, ast.Subscript):
                    def then(s2, b, t=t):
                        def then2(s3, i):
                            s3.emit(('delsub', b, i, self._site(s)))
                            return [(s3, 'normal', None)]
                        return self._ev(t.slice, s2, then2)
                    for r in self._ev(t.value, c, then):
                        nxt.append(r)
                elif isinstance(t, ast.Attribute):
                    def then(s2, b, t=t):
                        s2.emit(('delattr', b, t.attr, self._site(s)))
                        s2.heap.pop((b, t.attr), None)
                        return [(s2, 'normal', None)]
                    for r in self._ev(t.value, c, then):
                        nxt.append(r)
                elif isinstance(t, ast.Name):
                    c.store.pop(t.id, None)
                    nxt.append((c, 'normal', None))
                else:
                    raise AnalysisError('unsupported del target')
            outs2 = []
            res = []
            for r in nxt:
                if r[1] == 'normal':
                    outs2.append(r[0])
                else:
                    res.append(r)
            outs = outs2
            if res:
                return [(o, 'normal', None) for o in outs] + res
        return [(o, 'normal', None) for o in outs]

    def st_Assign(self, s, st):
        def then(s2, v):
            outs = [s2]
            for t in s.targets:
                nxt = []
                for c in outs:
                    for r in self.assign(t, v, c, s):
                        if r[1] != 'normal':
                            return [r]
                        nxt.append(r[0])
                outs = nxt
            return [(o, 'normal', None) for o in outs]
        return self._ev(s.value, st, then)

    def st_AnnAssign(self, s, st):
        if s.value is None:
            return [(st, 'normal', None)]
        return self._ev(s.value, st,
                        lambda s2, v: self.assign(s.target, v, s2, s))

    def st_AugAssign(self, s, st):
        opname = _BINOPS[type(s.op)][0]
        load = ast.copy_location(_as_load(s.target), s.target)

        def then(s2, cur):
            def then2(s3, v):
                nv = self.binop(opname, cur, v, s3)
                return self.assign(s.target, nv, s3, s, aug=opname)
            return self._ev(s.value, s2, then2)
        return self._ev(load, st, then)

    def assign(self, target, v, st, stmt, aug=None):
        if isinstance(target, ast.Name):
            st.store[target.id] = v
            return [(st, 'normal', None)]
        if isinstance(target, (ast.Tuple, ast.List)):
            n = len(target.elts)
            stars = [i for i, e in enumerate(target.elts)
                     if isinstance(e, ast.Starred)]
            if len(stars) == 1:
                # a, b, *rest = <sequence of known length>
                seq = None
                if is_const(v) and isinstance(v[1], tuple):
                    seq = [C(x) for x in v[1]]
                elif kind(v) in ('tuple', 'list') and all(
                        kind(x) not in ('splice', 'starseq', 'prefix')
                        for x in v[1]):
                    seq = [x[1] if kind(x) == 'item' else x for x in v[1]]
                if seq is not None and len(seq) >= n - 1:
                    i = stars[0]
                    k = len(seq) - (n - 1)
                    parts = seq[:i] + [
                        ('list', tuple(('item', x) for x in seq[i:i + k]))
                    ] + seq[i + k:]
                    outs = [st]
                    for t, p in zip(target.elts, parts):
                        t = t.value if isinstance(t, ast.Starred) else t
                        nxt = []
                        for c in outs:
                            for r in self.assign(t, p, c, stmt):
                                if r[1] != 'normal':
                                    return [r]
                                nxt.append(r[0])
                        outs = nxt
                    return [(o, 'normal', None) for o in outs]
            if kind(v) in ('tuple', 'list') and len(v[1]) == n and \
                    all(kind(x) not in ('splice', 'starseq', 'prefix')
                        for x in v[1]):
                parts = [x[1] if kind(x) == 'item' else x for x in v[1]]
            else:
                parts = [('sub', v, C(i)) for i in range(n)]
            outs = [st]
            for t, p in zip(target.elts, parts):
                nxt = []
                for c in outs:
                    for r in self.assign(t, p, c, stmt):
                        if r[1] != 'normal':
                            return [r]
                        nxt.append(r[0])
                outs = nxt
            return [(o, 'normal', None) for o in outs]
        if isinstance(target, ast.Attribute):
            def then(s2, b):
                s2.heap[(b, target.attr)] = v
                s2.emit(('setattr', b, target.attr, v, self._site(stmt), aug))
                return [(s2, 'normal', None)]
            return self._ev(target.value, st, then)
        if isinstance(target, ast.Subscript):
            def then(s2, b):
                def then2(s3, i):
                    s3.emit(('setsub', b, i, v, self._site(stmt)))
                    # strong update of constant-keyed literal dicts bound to
                    # a simple slot
                    self._dict_update(target.value, b, i, v, s3)
                    return [(s3, 'normal', None)]
                return self._ev(target.slice, s2, then2)
            return self._ev(target.value, st, then)
        if isinstance(target, ast.Starred):
            return self.assign(target.value, fresh('starred'), st, stmt)
        raise AnalysisError('unsupported assignment target %s'
                            % type(target).__name__)

    def _dict_update(self, recv_node, b, i, v, st):
        if kind(b) == 'dict':
            pairs = [(a, x) for a, x in b[1] if a != i] + [(i, v)]
            self._store_slot(recv_node, ('dict', tuple(pairs)), st)
        elif kind(b) == 'list' and is_const(i) and \
                isinstance(i[1], int) and not isinstance(i[1], bool) and \
                0 <= i[1] < len(b[1]) and \
                all(kind(x) == 'item' for x in b[1][:i[1] + 1]):
            # lst[k] = v where the first k+1 elements of the tracked list
            # are individually known (a slot reserved up front)
            items = list(b[1])
            items[i[1]] = ('item', v)
            self._store_slot(recv_node, ('list', tuple(items)), st)

    def _slot_exists(self, recv_node, st):
        if isinstance(recv_node, ast.Name):
            return recv_node.id in st.store
        return False

    def _store_slot(self, recv_node, newv, st):
        if isinstance(recv_node, ast.Name):
            if recv_node.id in st.store:
                st.store[recv_node.id] = newv
                return True
        elif isinstance(recv_node, ast.Attribute) and \
                isinstance(recv_node.value, ast.Name):
            b = st.store.get(recv_node.value.id)
            if b is not None and (b, recv_node.attr) in st.heap:
                st.heap[(b, recv_node.attr)] = newv
                return True
        return False

    # -- control flow ------------------------------------------------------

    def branch(self, test_node, st):
        """Yield (state, bool) for each feasible outcome of the test, with
        short-circuit semantics, plus ('raise') results.
        Returns (list[(state,bool)], list[raise results])."""
        outs, raises = [], []
        if isinstance(test_node, ast.BoolOp):
            is_and = isinstance(test_node.op, ast.And)
            cur = [st]
            for i, vnode in enumerate(test_node.values):
                last = i == len(test_node.values) - 1
                nxt = []
                for c in cur:
                    o2, r2 = self.branch(vnode, c)
                    raises.extend(r2)
                    for s2, b in o2:
                        if is_and:
                            if not b:
                                outs.append((s2, False))
                            elif last:
                                outs.append((s2, True))
                            else:
                                nxt.append(s2)
                        else:
                            if b:
                                outs.append((s2, True))
                            elif last:
                                outs.append((s2, False))
                            else:
                                nxt.append(s2)
                cur = nxt
            return outs, raises
        if isinstance(test_node, ast.UnaryOp) and \
                isinstance(test_node.op, ast.Not):
            o2, r2 = self.branch(test_node.operand, st)
            return [(s2, not b) for s2, b in o2], r2
        for s2, v, exc in self.eval(test_node, st):
            if exc is not None:
                raises.append((s2, 'raise', exc))
                continue
            outs.extend(self._branch_term(v, s2))
        return outs, raises

    def _branch_term(self, v, st):
        """Outcomes of testing the truth of an already evaluated term.  A
        stored `a and not b` (a flag computed before the `if`) is split into
        the same atomic assumptions as the test written in place."""
        k = kind(v)
        if k == 'unop' and v[1] == 'not':
            return [(s2, not b) for s2, b in self._branch_term(v[2], st)]
        if k == 'call' and v[2] == ('builtin', 'bool') and len(v[3]) == 1 \
                and not v[4]:
            # the truth of bool(x) is the truth of x: one fact, not two
            return self._branch_term(v[3][0], st)
        if k == 'boolop' and len(v[2]) >= 2:
            is_and = v[1] == 'and'
            outs = []
            cur = [st]
            for i, sub in enumerate(v[2]):
                last = i == len(v[2]) - 1
                nxt = []
                for c in cur:
                    for s2, b in self._branch_term(sub, c):
                        if b != is_and:
                            outs.append((s2, b))
                        elif last:
                            outs.append((s2, b))
                        else:
                            nxt.append(s2)
                cur = nxt
            return outs
        tv = self.decide(v, st)
        if tv is not None:
            return [(st, tv)]
        a = st
        b = st.copy()
        self.assume(a, v, True)
        self.assume(b, v, False)
        self._count()
        return [(a, True), (b, False)]

    def decide(self, v, st):
        tv = truth(v, st)
        if tv is not None:
            return tv
        k = kind(v)
        if k == 'cmp':
            op, a, b = v[1], v[2], v[3]
            # repeat / contradiction of an earlier test on this path
            for c, pol in st.cond:
                if kind(c) != 'cmp':
                    continue
                if c[2] == a and c[3] == b:
                    if c[1] == op:
                        return pol
                    if _NEG.get(c[1]) == op:
                        return not pol
                    # x == K1 known true, now x == K2 / x != K2
                if c[2] == a and c[1] == '==' and pol and is_const(c[3]) \
                        and is_const(b) and op in ('==', '!=', 'in', 'not in'):
                    try:
                        r = _CMPOPS_BY_NAME[op](c[3][1], b[1])
                        return r
                    except Exception:
                        pass
                if c[2] == a and c[1] == 'in' and not pol and op == '==' \
                        and is_const(b):
                    ok, coll = try_py(c[3])
                    if ok:
                        try:
                            if b[1] in coll:
                                return False
                        except TypeError:
                            pass
                if c[2] == a and c[1] == '!=' and not pol and is_const(c[3]) \
                        and is_const(b) and op in ('==', '!='):
                    r = (c[3][1] == b[1])
                    return r if op == '==' else not r
            if op in ('is', 'is not') and b == NONE:
                t = truth(a, st)
                if t is True:
                    return op == 'is not'
                if a in st.falsy and False:
                    return None
        return None

    def assume(self, st, v, pol):
        st.cond = st.cond + ((v, pol),)
        if self.mark_assumes:
            st.emit(('assume', v, pol))
        if pol:
            st.truthy = st.truthy | {v}
        else:
            st.falsy = st.falsy | {v}
        k = kind(v)
        if k == 'cmp' and v[3] == NONE and v[1] in ('is', 'is not'):
            isnone = (v[1] == 'is') == pol
            if isnone:
                st.falsy = st.falsy | {v[2]}
        if k == 'cmp' and v[1] in ('==', '!=') and is_const(v[3]):
            eq = (v[1] == '==') == pol
            if eq:
                if not v[3][1]:
                    st.falsy = st.falsy | {v[2]}
                else:
                    st.truthy = st.truthy | {v[2]}

    def st_If(self, s, st):
        d = _desugar_quantifier(s)
        if d is not None:
            return self.exec_block(d, st)
        outs, res = self.branch(s.test, st)
        for s2, b in outs:
            res.extend(self.exec_block(s.body if b else s.orelse, s2))
        return res

    def st_With(self, s, st):
        cur = [st]
        res = []
        for item in s.items:
            nxt = []
            for c in cur:
                for s2, v, exc in self.eval(item.context_expr, c):
                    if exc is not None:
                        res.append((s2, 'raise', exc))
                        continue
                    if item.optional_vars is not None:
                        for r in self.assign(item.optional_vars,
                                             ('enter', v), s2, s):
                            if r[1] == 'normal':
                                nxt.append(r[0])
                            else:
                                res.append(r)
                    else:
                        nxt.append(s2)
            cur = nxt
        for c in cur:
            res.extend(self.exec_block(s.body, c))
        return res

    def st_Try(self, s, st):
        has_handlers = bool(s.handlers)
        if has_handlers:
            self._try += 1
        try:
            body_res = self.exec_block(s.body, st)
        finally:
            if has_handlers:
                self._try -= 1
        res = []
        for s2, oc, v in body_res:
            if oc == 'raise' and has_handlers:
                res.extend(self._dispatch_exc(s, s2, v))
            elif oc == 'normal' and s.orelse:
                res.extend(self.exec_block(s.orelse, s2))
            else:
                res.append((s2, oc, v))
        if s.finalbody:
            fin = []
            for s2, oc, v in res:
                for s3, oc3, v3 in self.exec_block(s.finalbody, s2):
                    if oc3 == 'normal':
                        fin.append((s3, oc, v))
                    else:
                        fin.append((s3, oc3, v3))
            res = fin
        return res

    def _exc_class_names(self, exc):
        """Names of the classes the raised term is known to be an instance
        of, or None when unknown."""
        t = exc
        if kind(t) == 'fresh' and len(t) > 3 and t[3] == 'subscript':
            # a failing subscript raises a LookupError
            return ['KeyError', 'IndexError', 'LookupError', 'Exception']
        if kind(t) == 'call':
            t = t[2]
        if kind(t) == 'class':
            c = self.prog.all_classes.get(t[1])
            if c:
                names = [k.name for k in self.prog.mro(c)]
                for k in self.prog.mro(c):
                    names.extend(b.split('.')[-1] for b in k.ext_bases)
                if 'Exception' not in names:
                    names.append('Exception')
                return names
        if kind(t) in ('ext', 'builtin'):
            n = t[1].split('.')[-1]
            return [n, 'Exception'] if n != 'BaseException' else [n]
        return None

    def _dispatch_exc(self, s, st, exc):
        names = self._exc_class_names(exc)
        res = []
        caught_for_sure = False
        for h in s.handlers:
            hnames = _handler_names(h)
            if hnames is None or (set(hnames) & _EXC_CATCH_ALL):
                may, sure = True, True
            elif names is None:
                may, sure = True, False
            else:
                sure = bool(set(hnames) & set(names))
                may = sure
            if not may:
                continue
            s2 = st.copy() if not sure else st
            if h.name:
                s2.store[h.name] = exc if exc != ('reraise',) else \
                    fresh('exc')
            s2.emit(('except', tuple(hnames or ('*',)), self._site(h)))
            for r in self.exec_block(h.body, s2):
                if r[1] == 'raise' and r[2] == ('reraise',):
                    res.append((r[0], 'raise', exc))
                else:
                    res.append(r)
            if sure:
                caught_for_sure = True
                break
            self._count()
        if not caught_for_sure:
            res.append((st, 'raise', exc))
        return res

    # loops ----------------------------------------------------------------

    def _loop_writes(self, body):
        """Syntactic over-approximation of slots written in a loop body:
        names, and (name, attr) for attribute stores / mutator calls."""
        names, attrs = set(), set()

        def tgt(t):
            if isinstance(t, ast.Name):
                names.add(t.id)
            elif isinstance(t, (ast.Tuple, ast.List)):
                for e in t.elts:
                    tgt(e)
            elif isinstance(t, ast.Starred):
                tgt(t.value)
            elif isinstance(t, ast.Attribute):
                if isinstance(t.value, ast.Name):
                    attrs.add((t.value.id, t.attr))
            elif isinstance(t, ast.Subscript):
                recv(t.value)

        def recv(r):
            if isinstance(r, ast.Name):
                names.add(r.id)
            elif isinstance(r, ast.Attribute) and \
                    isinstance(r.value, ast.Name):
                attrs.add((r.value.id, r.attr))

        stack = list(body)
        while stack:
            n = stack.pop()
            if isinstance(n, (ast.FunctionDef, ast.AsyncFunctionDef,
                              ast.Lambda, ast.ClassDef)):
                if isinstance(n, (ast.FunctionDef, ast.AsyncFunctionDef)):
                    names.add(n.name)
                continue
            if isinstance(n, ast.Assign):
                for t in n.targets:
                    tgt(t)
            elif isinstance(n, (ast.AugAssign, ast.AnnAssign)):
                tgt(n.target)
            elif isinstance(n, (ast.For, ast.AsyncFor)):
                tgt(n.target)
            elif isinstance(n, ast.With):
                for it in n.items:
                    if it.optional_vars is not None:
                        tgt(it.optional_vars)
            elif isinstance(n, ast.NamedExpr):
                tgt(n.target)
            elif isinstance(n, ast.Delete):
                for t in n.targets:
                    tgt(t)
            elif isinstance(n, ast.ExceptHandler) and n.name:
                names.add(n.name)
            elif isinstance(n, ast.Call) and \
                    isinstance(n.func, ast.Attribute) and \
                    n.func.attr in _MUTATORS:
                recv(n.func.value)
            elif isinstance(n, (ast.Import, ast.ImportFrom)):
                for a in n.names:
                    names.add((a.asname or a.name).split('.')[0])
            stack.extend(ast.iter_child_nodes(n))
        return names, attrs

    @staticmethod
    def _loop_appends(body):
        out = set()
        for st_ in body:
            for n in ast.walk(st_):
                if isinstance(n, ast.Call) and \
                        isinstance(n.func, ast.Attribute) and \
                        n.func.attr in ('append', 'extend') and \
                        isinstance(n.func.value, ast.Name):
                    out.add(n.func.value.id)
        return out

    def _run_loop(self, s, st, kind_, iter_term, bind_target):
        lid = (self.fi.qualname, s.lineno, next(self._loop_ids))
        names, attrs = self._loop_writes(s.body)
        if bind_target is not None:
            for t in ast.walk(bind_target):
                if isinstance(t, ast.Name):
                    names.add(t.id)
        pre = st
        h = st.copy()
        slots = []
        for n in sorted(names):
            if n in h.store:
                slots.append(('v', n))
        for bn, an in sorted(attrs):
            b = h.store.get(bn)
            if b is not None and (b, an) in h.heap:
                slots.append(('h', b, an))

        def getslot(state, sl):
            if sl[0] == 'v':
                return state.store.get(sl[1])
            return state.heap.get((sl[1], sl[2]))

        def setslot(state, sl, v):
            if sl[0] == 'v':
                state.store[sl[1]] = v
            else:
                state.heap[(sl[1], sl[2])] = v

        appended = self._loop_appends(s.body)
        lvars = {}
        for sl in slots:
            p = getslot(pre, sl)
            if sl[0] == 'v' and sl[1] in appended and kind(p) in (
                    'sub', 'call', 'loopout', 'param'):
                p = ('list', (('splice', p),))
                setslot(pre, sl, p)
            if kind(p) == 'list':
                lv = ('list', (('prefix', lid, _slot_name(sl)),))
            else:
                lv = ('loopvar', lid, _slot_name(sl))
            lvars[sl] = lv
            setslot(h, sl, lv)
        h.trace = ()
        ncond = len(pre.cond)
        # facts about loop-written slots do not survive the havoc; facts
        # about other terms do
        if _body_calls_out(s.body):
            # a call in the body may change any attribute: what was known
            # about attribute reads before the loop is not known at the
            # top of a later iteration
            h.truthy = frozenset(t for t in h.truthy if not _reads_attr(t))
            h.falsy = frozenset(t for t in h.falsy if not _reads_attr(t))
            h.cbase = len(pre.cond)
        body_states = []
        res = []
        self._last_loop_exits = True
        if kind_ == 'while':
            outs, raises = self.branch(s.test, h)
            for r in raises:
                res.append(r)
            exit_states = []
            for s2, b in outs:
                if b:
                    body_states.append(s2)
                else:
                    exit_states.append(s2)
            self._last_loop_exits = bool(exit_states)
        else:
            if bind_target is not None:
                elem = ('elem', iter_term, lid)
                for r in self.assign(bind_target, elem, h, s):
                    if r[1] == 'normal':
                        body_states.append(r[0])
                    else:
                        res.append(r)
            else:
                body_states.append(h)
        body_paths = []
        breaks = []
        escapes = []
        for bs in body_states:
            for s2, oc, v in self.exec_block(s.body, bs):
                if oc in ('normal', 'continue'):
                    p = Path(s2, 'continue', None)
                    p.cond = s2.cond[ncond:]
                    for sl in slots:
                        e = getslot(s2, sl)
                        p.deltas[_slot_name(sl)] = self._delta(
                            lvars[sl], e, s2)
                    body_paths.append(p)
                elif oc == 'break':
                    breaks.append(s2)
                    p = Path(s2, 'break', None)
                    p.cond = s2.cond[ncond:]
                    body_paths.append(p)
                else:
                    escapes.append((s2, oc, v))
                    p = Path(s2, oc, v)
                    p.cond = s2.cond[ncond:]
                    body_paths.append(p)
        # post-loop state
        post = pre.copy()
        for sl in slots:
            name = _slot_name(sl)
            ds = [bp.deltas.get(name) for bp in body_paths
                  if bp.outcome == 'continue']
            p = getslot(pre, sl)
            if ds and all(d is not None and d[0] == 'num' for d in ds):
                vec = tuple(d[1] for d in ds)
                if all(not d for d in vec):
                    nv = p
                else:
                    nv = self.binop('+', p, ('star', lid, vec))
            elif ds and all(d is not None and d[0] == 'seq' for d in ds) \
                    and kind(p) == 'list':
                vec = tuple(d[1] for d in ds)
                if all(not d for d in vec):
                    nv = p
                else:
                    nv = ('list', p[1] + (('starseq', lid, vec),))
            elif not ds:
                nv = p
            else:
                nv = ('loopout', lid, name)
            setslot(post, sl, nv)
        ev = ('loop', lid, kind_, iter_term, tuple(body_paths),
              {_slot_name(sl): getslot(pre, sl) for sl in slots},
              {_slot_name(sl): getslot(post, sl) for sl in slots})
        post.trace = pre.trace + (ev,)
        # break / escape paths: prefix the pre-loop trace and condition
        out = []
        for s2 in breaks:
            s2.trace = pre.trace + (ev, ('loop-iter', lid)) + s2.trace
            out.append((s2, 'break', None))
        for s2, oc, v in escapes:
            s2.trace = pre.trace + (ev, ('loop-iter', lid)) + s2.trace
            out.append((s2, oc, v))
        for r in res:
            r[0].trace = pre.trace + r[0].trace
            out.append(r)
        return post, out, lid

    def _delta(self, lv, e, st):
        """Describe how a slot changed over one loop-body path."""
        if e is None:
            return None
        if kind(lv) == 'list':
            if kind(e) == 'list' and e[1][:1] == lv[1]:
                return ('seq', tuple(
                    x for x in e[1][1:]
                    if not (kind(x) == 'item' and x[1] in st.falsy)))
            return None
        if e == lv:
            return ('num', ())
        d = affine(('binop', '-', e, lv), st.falsy)
        if lv in d:
            return None
        full = affine(e, st.falsy)
        if full.get(lv) != 1:
            return None
        return ('num', tuple(sorted(d.items(), key=repr)))

    def _unroll(self, s, st, seq, terms=False):
        cur = [st]
        res = []
        for elem in seq:
            nxt = []
            for c in cur:
                for r in self.assign(s.target, elem if terms
                                     else from_py(elem), c, s):
                    if r[1] != 'normal':
                        res.append(r)
                        continue
                    for r2 in self.exec_block(s.body, r[0]):
                        if r2[1] in ('normal', 'continue'):
                            nxt.append(r2[0])
                        elif r2[1] == 'break':
                            res.append((r2[0], 'normal', None))
                        else:
                            res.append(r2)
            cur = nxt
        for c in cur:
            if s.orelse:
                res.extend(self.exec_block(s.orelse, c))
            else:
                res.append((c, 'normal', None))
        return res

    def st_For(self, s, st):
        def then(s2, it):
            # a loop over a sequence known to be empty runs zero times
            if it in (('list', ()), ('tuple', ()), ('dict', ())) or (
                    is_const(it) and isinstance(
                        it[1], (tuple, list, str, bytes, dict, frozenset))
                    and len(it[1]) == 0):
                if s.orelse:
                    return self.exec_block(s.orelse, s2)
                return [(s2, 'normal', None)]
            if self.unroll_const:
                ok, seq = try_py(it)
                if ok and isinstance(seq, (list, tuple)) and len(seq) <= 64:
                    return self._unroll(s, s2, seq)
                if not ok and kind(it) in ('tuple', 'list') and \
                        0 < len(it[1]) <= 64 and all(
                            kind(x) not in ('splice', 'starseq', 'prefix')
                            and kind(x[1] if kind(x) == 'item' else x)
                            in ('tuple', 'list', 'const')
                            for x in it[1]):
                    # rows that hold a class or function next to constants
                    rows = [x[1] if kind(x) == 'item' else x for x in it[1]]
                    return self._unroll(s, s2, rows, terms=True)
            # a loop over a table of rows written in place,
            #     for key, value in (('sender', sender), ...):
            # is the same as its body written out once per row
            literal = isinstance(s.iter, (ast.Tuple, ast.List)) and \
                all(isinstance(e, (ast.Tuple, ast.List))
                    for e in s.iter.elts)
            # ... and so is a loop over a local list whose rows are all
            # known on this path (built by a literal and appends)
            built = isinstance(s.iter, ast.Name) and kind(it) == 'list' and \
                all(kind(x) == 'item' for x in it[1]) and \
                len(it[1]) <= 6 and any(
                    isinstance(n, ast.Assign) and len(n.targets) == 1 and
                    isinstance(n.targets[0], ast.Name) and
                    n.targets[0].id == s.iter.id and
                    isinstance(n.value, ast.List)
                    for n in ast.walk(self.fi.node))
            # ... and a loop over a constant table of handlers (a class- or
            # module-level tuple whose rows name the function to call)
            if not (literal or built) and kind(it) in ('tuple', 'list') and \
                    0 < len(it[1]) <= 6 and _is_closed(it) and all(
                        kind(x[1] if kind(x) == 'item' else x) == 'tuple' and
                        any(kind(y) in ('func', 'funcref')
                            for y in (x[1] if kind(x) == 'item' else x)[1])
                        for x in it[1]):
                literal = True
            if (literal or built) and kind(it) in ('tuple', 'list') and \
                    0 < len(it[1]) <= 12 and \
                    all(kind(x) in ('tuple', 'list') or
                        (kind(x) == 'item' and kind(x[1]) in ('tuple', 'list'))
                        for x in it[1]):
                rows = [x[1] if kind(x) == 'item' else x for x in it[1]]
                return self._unroll(s, s2, rows, terms=True)
            post, out, lid = self._run_loop(s, s2, 'for', it, s.target)
            res = []
            # normal exit (orelse runs), breaks skip orelse
            if s.orelse:
                res.extend(self.exec_block(s.orelse, post))
            else:
                res.append((post, 'normal', None))
            for r in out:
                if r[1] == 'break':
                    res.append((r[0], 'normal', None))
                else:
                    res.append(r)
            return res
        return self._ev(s.iter, st, then)

    def st_While(self, s, st):
        # constant-false test: loop never runs
        post, out, lid = self._run_loop(s, st, 'while', None, None)
        res = []
        if not self._last_loop_exits:
            pass        # `while True:` - left only through break/return/raise
        elif s.orelse:
            res.extend(self.exec_block(s.orelse, post))
        else:
            res.append((post, 'normal', None))
        for r in out:
            if r[1] == 'break':
                res.append((r[0], 'normal', None))
            else:
                res.append(r)
        return res

    # -- expressions -------------------------------------------------------
    # eval returns list of (state, value, exc)

    def eval(self, node, st):
        m = getattr(self, 'ex_' + type(node).__name__, None)
        if m is None:
            raise AnalysisError('%s: unsupported expression %s at line %d' % (
                self.fi.qualname, type(node).__name__,
                getattr(node, 'lineno', 0)))
        return m(node, st)

    def eval_many(self, nodes, st):
        """Evaluate a list of expression nodes left to right.
        Returns list of (state, [values], exc)."""
        cur = [(st, [])]
        out = []
        for n in nodes:
            nxt = []
            for s, vals in cur:
                if isinstance(n, ast.Starred):
                    for s2, v, exc in self.eval(n.value, s):
                        if exc is not None:
                            out.append((s2, None, exc))
                        else:
                            nxt.append((s2, vals + [('splice', v)]))
                    continue
                for s2, v, exc in self.eval(n, s):
                    if exc is not None:
                        out.append((s2, None, exc))
                    else:
                        nxt.append((s2, vals + [v]))
            cur = nxt
        return [(s, vals, None) for s, vals in cur] + out

    def ex_Constant(self, n, st):
        return [(st, C(n.value), None)]

    def ex_Name(self, n, st):
        return [(st, self.lookup_name(n.id, st), None)]

    def is_runtime_memo(self, t):
        """t is a module-level container that is empty when the module is
        imported and written only by functions (a memo, clause DM).  Under
        DM (key-complete, nothing remembered on failure, entries never
        changed) a call behaves as its FIRST call: the lookup misses."""
        return kind(t) == 'global' and \
            (t[1], t[2]) in self.prog.runtime_memos()

    def lookup_name(self, name, st):
        if name in st.store:
            return st.store[name]
        if name in self.env:
            return self.env[name]
        # enclosing function scopes are not modelled as stores: free
        # variables of a nested function analysed stand-alone
        fi = self.fi
        if fi.parent is not None or True:
            p = fi
            while p is not None:
                if name in p.nested:
                    return ('funcref', p.nested[name].qualname, None)
                p = p.parent
        return self.module_name(fi.module, name)

    def module_name(self, m, name, _depth=0):
        if name in m.funcs:
            return ('func', m.funcs[name].qualname)
        if name in m.classes:
            return ('class', m.classes[name].qualname)
        if name in m.assigns:
            vals = m.assigns[name]
            if len(vals) == 1 and _depth < 6:
                v = self.const_global(m, name, _depth)
                if v is not None:
                    return v
            return ('global', m.name, name)
        if name in m.imports:
            tgt = m.imports[name]
            r = self.prog.resolve_dotted(tgt)
            if r:
                return self._resolved_to_term(r)
            return ('ext', tgt)
        if name in _BUILTIN_NAMES:
            return ('builtin', name)
        # free variable of a nested function (closure) or unknown global
        return ('free', name)

    def _resolved_to_term(self, r):
        k, v = r
        if k == 'func':
            return ('func', v.qualname)
        if k == 'class':
            return ('class', v.qualname)
        if k == 'module':
            return ('module', v.name)
        if k == 'global':
            m, name = v
            c = self.const_global(m, name, 0)
            return c if c is not None else ('global', m.name, name)
        if k == 'classattr':
            c, name = v
            return self.class_attr_term(c, name)
        return fresh('unresolved')

    _cg_cache = None

    def const_global(self, m, name, depth):
        """Fold a module-level single assignment to a constant structure (or
        a func/class reference); None when not foldable."""
        if Interp._cg_cache is None or Interp._cg_cache[0] is not self.prog:
            Interp._cg_cache = (self.prog, {})
        cache = Interp._cg_cache[1]
        key = (m.name, name)
        if key in cache:
            return cache[key]
        cache[key] = None
        vals = m.assigns.get(name, [])
        if len(vals) != 1 or name in m.mutated:
            return None
        v = self.eval_in_module(m, vals[0])
        if v is not None and not _is_closed(v):
            v = None
        cache[key] = v
        return v

    def eval_in_module(self, m, node, cls=None):
        """Evaluate an expression at module (or class) scope; single result
        or None."""
        from .loader import FuncInfo
        fake = ast.FunctionDef(name='<module>', args=ast.arguments(
            posonlyargs=[], args=[], kwonlyargs=[], kw_defaults=[],
            defaults=[]), body=[], decorator_list=[], lineno=0, col_offset=0)
        fi = FuncInfo(m.name + '.<module>', fake, m, cls=None)
        env = self.env
        if cls is not None:
            # names of the class body: the functions defined there
            env = dict(self.env)
            for k in reversed(self.prog.mro(cls)):
                if k is cls:
                    for mn, mf in k.methods.items():
                        env.setdefault(mn, ('func', mf.qualname))
        sub = Interp(self.prog, env=env, exc_edges=False)
        sub._stack.append(fi)
        st = State()
        try:
            res = [r for r in sub.eval(node, st) if r[2] is None]
        except AnalysisError:
            return None
        if len(res) != 1:
            return None
        return res[0][1]

    def class_attr_term(self, c, name):
        k, node = self.prog.lookup_class_attr(c, name)
        if node is None:
            return None
        v = self.eval_in_module(k.module, node, cls=k)
        return v

    def ex_Attribute(self, n, st):
        out = []
        for s2, b, exc in self.eval(n.value, st):
            if exc is not None:
                out.append((s2, None, exc))
                continue
            out.append((s2, self.getattr_term(b, n.attr, s2), None))
        return out

    def type_of(self, b, st=None):
        """ClassInfo the term is an instance of, when known."""
        k = kind(b)
        if k == 'call' and kind(b[2]) == 'class':
            return self.prog.all_classes.get(b[2][1])
        if k == 'param' and b[1] == 'self':
            if self.self_cls is not None:
                return self.self_cls
            if self._stack and self._stack[0].cls is not None:
                return self._stack[0].cls
        if k == 'inst':
            return self.prog.all_classes.get(b[1])
        if b == ('free', 'self') and self._stack:
            # `self` captured by a closure defined inside a method
            f = self._stack[0]
            while f is not None and f.cls is None:
                f = getattr(f, 'parent', None)
            if f is not None:
                return self.self_cls or f.cls
        return None

    def getattr_term(self, b, attr, st):
        if (b, attr) in st.heap:
            return st.heap[(b, attr)]
        k = kind(b)
        if k == 'module':
            m = self.prog.modules[b[1]]
            return self.module_name(m, attr)
        if k == 'ext':
            return ('ext', b[1] + '.' + attr)
        if k == 'class':
            c = self.prog.all_classes.get(b[1])
            if c is not None:
                f = self.prog.lookup_method(c, attr)
                if f:
                    return ('func', f.qualname)
                v = self.class_attr_term(c, attr)
                if v is not None and _is_closed(v) and \
                        not self._has_instance_store(c, attr):
                    return v
            return ('attr', b, attr)
        c = self.type_of(b, st)
        if c is not None:
            f = self.prog.lookup_method(c, attr)
            if f:
                if any(isinstance(d, ast.Name) and d.id == 'staticmethod'
                       for d in f.node.decorator_list):
                    return ('func', f.qualname)    # no receiver is passed
                return ('bound', b, f.qualname)
            if k != 'param' or True:
                v = self.class_attr_term(c, attr)
                # class-level constants are visible through the instance
                # unless an instance store exists somewhere in the class
                if v is not None and _is_closed(v) and \
                        not self._has_instance_store(c, attr):
                    return v
        ra = getattr(self.prog, 'renamed_attr', None)
        if ra and attr in ra:
            attr = ra[attr]      # a method that was merely renamed
        return ('attr', b, attr)

    _store_cache = {}

    def _has_instance_store(self, c, attr):
        """Is an attribute of that name stored (or mutated in place) anywhere
        in the package?  Coarse (any object, any function) but sound: a
        class-level constant may be folded through an instance only when
        nobody can have replaced it."""
        key = (id(self.prog), attr)
        if key in Interp._store_cache:
            return Interp._store_cache[key]
        found = False
        optional = self._optional_init_stores(attr)
        for f in self.prog.all_funcs.values():
            if f.parent is not None:
                continue
            for node in ast.walk(f.node):
                if isinstance(node, ast.Attribute) and node.attr == attr \
                        and isinstance(node.ctx, (ast.Store, ast.Del)) \
                        and id(node) not in optional:
                    found = True
                if _mutates_attr(node, attr):
                    found = True
                if isinstance(node, ast.Call) and \
                        isinstance(node.func, ast.Name) and \
                        node.func.id == 'setattr' and len(node.args) == 3 \
                        and isinstance(node.args[1], ast.Constant) and \
                        node.args[1].value == attr:
                    found = True
        Interp._store_cache[key] = found
        return found

    def _optional_init_stores(self, attr):
        """Stores `self.<attr> = ...` in an __init__ that sit under
        `if <param> is not None:` for a parameter that defaults to None and
        that no construction in the package supplies: with the package's own
        constructions they never run, so the class-level value stays the one
        an instance sees (an option for callers outside the package is a
        configuration the class-level table does not describe)."""
        out = set()
        for f in self.prog.all_funcs.values():
            if f.parent is not None or f.cls is None or \
                    f.node.name != '__init__':
                continue
            a = f.node.args
            names = [x.arg for x in a.args]
            dflt = dict(zip(names[::-1], a.defaults[::-1]))
            dflt.update({x.arg: d for x, d in zip(a.kwonlyargs,
                                                  a.kw_defaults) if d})
            for st in f.node.body:
                if not (isinstance(st, ast.If) and not st.orelse and
                        isinstance(st.test, ast.Compare) and
                        len(st.test.ops) == 1 and
                        isinstance(st.test.ops[0], ast.IsNot) and
                        isinstance(st.test.left, ast.Name) and
                        isinstance(st.test.comparators[0], ast.Constant) and
                        st.test.comparators[0].value is None):
                    continue
                prm = st.test.left.id
                d = dflt.get(prm)
                if not (isinstance(d, ast.Constant) and d.value is None):
                    continue
                if any(isinstance(x, ast.Name) and x.id == prm and
                       isinstance(x.ctx, ast.Store)
                       for x in ast.walk(f.node)):
                    continue
                mine = [x for b in st.body for x in ast.walk(b)
                        if isinstance(x, ast.Attribute) and x.attr == attr and
                        isinstance(x.ctx, ast.Store) and
                        isinstance(x.value, ast.Name) and x.value.id == 'self']
                if mine and not self._param_supplied(f, prm):
                    out.update(id(x) for x in mine)
        return out

    def _param_supplied(self, init, prm):
        """May some call in the package bind that __init__ parameter?
        Considered: calls of the class or a subclass by name, explicit
        `K.__init__(self, ..)` / `super().__init__(..)` of subclasses, and
        calls through a class attribute bound to the class
        (`authenticator = ClientAuthenticator` ... `self.authenticator(..)`),
        the latter resolved by interpreting the calling method as the class
        that carries the binding.  Anything unresolvable counts as supplied."""
        prog = self.prog
        classes = [k for k in prog.all_classes.values()
                   if init.cls in prog.mro(k)]
        short = {k.qualname.rsplit('.', 1)[-1] for k in classes}
        pos = [x.arg for x in init.node.args.args][1:]
        idx = pos.index(prm) if prm in pos else None

        def binds(node, skip=0):
            if any(k.arg is None or k.arg == prm for k in node.keywords):
                return True
            if any(isinstance(x, ast.Starred) for x in node.args):
                return True
            return idx is not None and len(node.args) - skip > idx

        def last(e):
            return e.id if isinstance(e, ast.Name) else (
                e.attr if isinstance(e, ast.Attribute) else None)

        holders = {}         # alias attribute -> classes whose body binds it
        names = set(short)   # module-level aliases
        for k in prog.all_classes.values():
            for st in k.node.body:
                if isinstance(st, ast.Assign) and last(st.value) in short:
                    for t in st.targets:
                        if isinstance(t, ast.Name):
                            holders.setdefault(t.id, []).append(k)
        for m in prog.modules.values():
            for st in m.tree.body:
                if isinstance(st, ast.Assign) and last(st.value) in short:
                    names.update(t.id for t in st.targets
                                 if isinstance(t, ast.Name))
        for m in prog.modules.values():
            for node in ast.walk(m.tree):
                if isinstance(node, ast.Assign) and \
                        last(node.value) in short | set(holders):
                    for t in node.targets:
                        if isinstance(t, ast.Attribute):
                            return True      # rebound at run time somewhere
        for f in list(prog.all_funcs.values()) + [None]:
            tree = f.node if f is not None else None
            nodes = ast.walk(tree) if tree is not None else (
                n for m in prog.modules.values() for st in m.tree.body
                if not isinstance(st, (ast.FunctionDef, ast.ClassDef))
                for n in ast.walk(st))
            for node in nodes:
                if not isinstance(node, ast.Call):
                    continue
                fn = node.func
                nm = last(fn)
                if nm in names and binds(node):
                    return True
                if nm == '__init__' and isinstance(fn, ast.Attribute):
                    if last(fn.value) in short and binds(node, 1):
                        return True
                    if isinstance(fn.value, ast.Call) and \
                            last(fn.value.func) == 'super' and \
                            f is not None and f.cls in classes and \
                            binds(node):
                        return True
                if nm in holders and isinstance(fn, ast.Attribute) and \
                        (node.args or node.keywords):
                    top = f
                    while top is not None and top.parent is not None:
                        top = top.parent
                    if top is None or top.cls is None:
                        return True
                    for k in holders[nm]:
                        if top.cls not in prog.mro(k):
                            continue
                        if self._construction_binds(top, k, init, binds_t=(
                                idx, prm)):
                            return True
        return False

    def _construction_binds(self, meth, as_cls, init, binds_t):
        idx, prm = binds_t
        try:
            it = Interp(self.prog, self_cls=as_cls, exc_edges=False,
                        max_paths=2000)
            paths = it.run(meth)
        except Exception:
            return True
        seen = False
        for p in paths:
            for ev in iter_events(p.trace, deep=True):
                if ev[0] == 'enter' and ev[1] == init.qualname:
                    seen = True
                    c = ev[3]
                    if any(k in (prm, '**') for k, _ in c[4]) or \
                            any(kind(a) == 'splice' for a in c[3]) or \
                            (idx is not None and len(c[3]) > idx):
                        return True
        return not seen      # never saw the construction: cannot tell

    def ex_BinOp(self, n, st):
        opname = _BINOPS[type(n.op)][0]
        out = []
        for s2, vals, exc in self.eval_many([n.left, n.right], st):
            if exc is not None:
                out.append((s2, None, exc))
            else:
                out.append((s2, self.binop(opname, vals[0], vals[1], s2),
                            None))
        return out

    def binop(self, op, a, b, st=None):
        oka, pa = try_py(a)
        okb, pb = try_py(b)
        if oka and okb:
            try:
                return from_py(_BINOPS_BY_NAME[op](pa, pb))
            except Exception:
                pass
        if op == '+':
            if kind(a) == 'list' and kind(b) == 'list':
                return ('list', a[1] + b[1])
            if kind(a) == 'tuple' and kind(b) == 'tuple':
                return ('tuple', a[1] + b[1])
            if is_const(a) and a[1] in (0, '', b''):
                return b
            if is_const(b) and b[1] in (0, '', b''):
                return a
        if op == '-' and is_const(b) and b[1] == 0 and \
                not isinstance(b[1], bool):
            return a
        return ('binop', op, a, b)

    def ex_UnaryOp(self, n, st):
        out = []
        for s2, v, exc in self.eval(n.operand, st):
            if exc is not None:
                out.append((s2, None, exc))
                continue
            if isinstance(n.op, ast.Not):
                tv = self.decide(v, s2)
                out.append((s2, C(not tv) if tv is not None
                            else ('unop', 'not', v), None))
            else:
                opn = {ast.USub: '-', ast.UAdd: '+', ast.Invert: '~'}[
                    type(n.op)]
                ok, pv = try_py(v)
                if ok:
                    try:
                        out.append((s2, C({'-': lambda x: -x,
                                           '+': lambda x: +x,
                                           '~': lambda x: ~x}[opn](pv)),
                                    None))
                        continue
                    except Exception:
                        pass
                out.append((s2, ('unop', opn, v), None))
        return out

    def ex_BoolOp(self, n, st):
        """Value semantics of and/or: fold constants; otherwise keep a
        symbolic term (or fork when fork_boolop)."""
        is_and = isinstance(n.op, ast.And)
        opn = 'and' if is_and else 'or'
        results = []

        def finish(ss, vals):
            results.append((ss, vals[0] if len(vals) == 1
                            else ('boolop', opn, tuple(vals)), None))

        def rec(i, s, acc):
            for s2, v, exc in self.eval(n.values[i], s):
                if exc is not None:
                    results.append((s2, None, exc))
                    continue
                if i == len(n.values) - 1:
                    finish(s2, acc + [v])
                    continue
                tv = self.decide(v, s2)
                if tv is None and self.fork_boolop:
                    a = s2
                    b = s2.copy()
                    self.assume(a, v, True)
                    self.assume(b, v, False)
                    self._count()
                    for ss, t in ((a, True), (b, False)):
                        if t == is_and:
                            rec(i + 1, ss, acc)
                        else:
                            finish(ss, acc + [v])
                elif tv is None:
                    rec(i + 1, s2, acc + [v])
                elif tv == is_and:
                    rec(i + 1, s2, acc)
                else:
                    finish(s2, acc + [v])
        rec(0, st, [])
        return results

    _nofork = 0

    def ex_IfExp(self, n, st):
        if self._nofork:
            # inside a comprehension element: keep the choice symbolic (the
            # element is evaluated per value afterwards)
            r = [[x for x in self.eval(e, st) if x[2] is None]
                 for e in (n.test, n.body, n.orelse)]
            if all(len(x) == 1 for x in r):
                c, a, b = (x[0][1] for x in r)
                tv = truth(c, st)
                if tv is True:
                    return [(st, a, None)]
                if tv is False:
                    return [(st, b, None)]
                return [(st, ('ifexp', c, a, b), None)]
        outs, raises = self.branch(n.test, st)
        res = [(r[0], None, r[2]) for r in raises]
        for s2, b in outs:
            res.extend(self.eval(n.body if b else n.orelse, s2))
        return res

    def ex_Compare(self, n, st):
        out = []
        nodes = [n.left] + list(n.comparators)
        for s2, vals, exc in self.eval_many(nodes, st):
            if exc is not None:
                out.append((s2, None, exc))
                continue
            terms = []
            for op, a, b in zip(n.ops, vals, vals[1:]):
                terms.append(self.compare(_CMPOPS[type(op)][0], a, b, s2))
            if len(terms) == 1:
                out.append((s2, terms[0], None))
            else:
                out.append((s2, ('boolop', 'and', tuple(terms)), None))
        return out

    def compare(self, op, a, b, st=None):
        if op in ('in', 'not in') and self.is_runtime_memo(b):
            return C(op == 'not in')
        oka, pa = try_py(a)
        okb, pb = try_py(b)
        if oka and okb and op not in ('is', 'is not'):
            try:
                return C(bool(_CMPOPS_BY_NAME[op](pa, pb)))
            except Exception:
                pass
        if op in ('is', 'is not') and oka and okb and \
                (pa is None or pb is None or isinstance(pa, bool)):
            return C((pa is pb) == (op == 'is'))
        if op in ('is', 'is not') and (_is_sentinel(a) or _is_sentinel(b)):
            # a private `object()` is identical to itself only
            if a == b:
                return C(op == 'is')
            if kind(a) in ('attr', 'const', 'list', 'dict', 'tuple', 'sub',
                           'param') or \
                    kind(b) in ('attr', 'const', 'list', 'dict', 'tuple',
                                'sub', 'param'):
                return C(op == 'is not')
        if op in ('is', 'is not') and b == NONE:
            t = truth(a, st)
            if t is True or kind(a) in ('list', 'dict', 'tuple', 'set',
                                        'func', 'class', 'funcref'):
                return C(op == 'is not')
        if op in ('==', '!='):
            ta, tb = static_type(a), static_type(b)
            if ta and tb and ta != tb and 'none' not in (ta, tb):
                return C(op == '!=')
        return ('cmp', op, a, b)

    def ex_Tuple(self, n, st):
        return [(s, ('tuple', tuple(v)) if exc is None else None, exc)
                for s, v, exc in self.eval_many(n.elts, st)]

    def ex_List(self, n, st):
        out = []
        for s, v, exc in self.eval_many(n.elts, st):
            if exc is not None:
                out.append((s, None, exc))
            else:
                out.append((s, ('list', tuple(
                    x if kind(x) == 'splice' else ('item', x) for x in v)),
                    None))
        return out

    def ex_Set(self, n, st):
        return [(s, ('set', tuple(v)) if exc is None else None, exc)
                for s, v, exc in self.eval_many(n.elts, st)]

    def ex_Dict(self, n, st):
        keys = [k for k in n.keys]
        if any(k is None for k in keys):
            return [(st, fresh('dict**'), None)]
        out = []
        for s, v, exc in self.eval_many(keys + list(n.values), st):
            if exc is not None:
                out.append((s, None, exc))
            else:
                h = len(keys)
                out.append((s, ('dict', tuple(zip(v[:h], v[h:]))), None))
        return out

    def ex_JoinedStr(self, n, st):
        nodes = [x.value if isinstance(x, ast.FormattedValue) else x
                 for x in n.values]
        out = []
        for s, v, exc in self.eval_many(nodes, st):
            if exc is not None:
                out.append((s, None, exc))
                continue
            if all(is_const(x) for x in v):
                try:
                    out.append((s, C(''.join(str(x[1]) for x in v)), None))
                    continue
                except Exception:
                    pass
            out.append((s, ('fstr', tuple(v)), None))
        return out

    def ex_FormattedValue(self, n, st):
        return self.eval(n.value, st)

    def ex_Subscript(self, n, st):
        out = []
        for s2, vals, exc in self.eval_many([n.value, n.slice], st):
            if exc is not None:
                out.append((s2, None, exc))
                continue
            b, i = vals
            if self.is_runtime_memo(b) and isinstance(n.ctx, ast.Load):
                s2.emit(('memo-miss', b, self._site(n)))
                out.append((s2, None, fresh('exc', 'subscript')))
                continue
            v = self.subscript(b, i, s2)
            if self._try and self.exc_edges and kind(i) != 'slice' \
                    and not is_const(v):
                s3 = s2.copy()
                s3.emit(('exc-edge', 'subscript', self._site(n)))
                out.append((s3, None, fresh('exc', 'subscript')))
                self._count()
            out.append((s2, v, None))
        return out

    def subscript(self, b, i, st=None):
        ok, pb = try_py(b)
        if ok:
            if kind(i) == 'slice':
                oks, ps = True, None
                try:
                    lo, hi, stp = (to_py(i[1]), to_py(i[2]), to_py(i[3]))
                    return from_py(pb[lo:hi:stp])
                except Exception:
                    pass
            else:
                oki, pi = try_py(i)
                if oki:
                    try:
                        return from_py(pb[pi])
                    except Exception:
                        pass
        if kind(b) in ('tuple',) and is_const(i) and \
                isinstance(i[1], int) and -len(b[1]) <= i[1] < len(b[1]):
            return b[1][i[1]]
        if kind(b) == 'list' and is_const(i) and isinstance(i[1], int) \
                and all(kind(x) == 'item' for x in b[1]) and \
                -len(b[1]) <= i[1] < len(b[1]):
            return b[1][i[1]][1]
        if kind(b) == 'dict' and is_const(i):
            for a, v in b[1]:
                if a == i:
                    return v
        if st is not None and kind(b) == 'attr':
            g = self._known_get(b, i, st)
            if g is not None:
                return g
        return ('sub', b, i)

    def _known_get(self, b, i, st):
        """`D.get(k[, None])` was read on this path and found not None, and
        D was not changed since: `D[k]` is that same object (one term for
        both spellings, so facts about the one hold for the other)."""
        found = None
        for c, pol in st.cond:
            if kind(c) == 'cmp' and c[1] in ('is', 'is not') and \
                    c[3] == NONE and (c[1] == 'is not') == pol:
                t = c[2]
                if kind(t) == 'call' and kind(t[2]) == 'attr' and \
                        t[2][2] == 'get' and t[2][1] == b and t[3] and \
                        t[3][0] == i and (len(t[3]) == 1 or
                                          t[3][1:] == (NONE,)):
                    found = t
        if found is None:
            return None
        for ev in iter_events(st.trace):
            if ev[0] in ('delsub', 'setsub') and ev[1] == b:
                return None
            if ev[0] in ('setattr', 'delattr') and \
                    ('attr', ev[1], ev[2]) == b:
                return None
            if ev[0] == 'call' and kind(ev[1][2]) == 'attr' and \
                    ev[1][2][1] == b and ev[1][2][2] in _MUTATORS:
                return None
            if ev[0] == 'mutate' and ev[1] == b:
                return None
        return found

    def ex_Slice(self, n, st):
        nodes = [x if x is not None else ast.Constant(value=None)
                 for x in (n.lower, n.upper, n.step)]
        return [(s, ('slice', v[0], v[1], v[2]) if exc is None else None, exc)
                for s, v, exc in self.eval_many(nodes, st)]

    def ex_Starred(self, n, st):
        return [(s, ('splice', v) if exc is None else None, exc)
                for s, v, exc in self.eval(n.value, st)]

    def ex_Lambda(self, n, st):
        return [(st, ('lambda', self.fi.qualname, n.lineno, n.col_offset),
                 None)]

    def ex_NamedExpr(self, n, st):
        out = []
        for s2, v, exc in self.eval(n.value, st):
            if exc is None:
                s2.store[n.target.id] = v
            out.append((s2, v, exc))
        return out

    def ex_Yield(self, n, st):
        if n.value is None:
            st.emit(('yield', NONE, self._site(n)))
            return [(st, fresh('sent'), None)]
        out = []
        for s2, v, exc in self.eval(n.value, st):
            if exc is None:
                s2.emit(('yield', v, self._site(n)))
                out.append((s2, fresh('sent'), None))
            else:
                out.append((s2, None, exc))
        return out

    def ex_YieldFrom(self, n, st):
        out = []
        for s2, v, exc in self.eval(n.value, st):
            if exc is None:
                s2.emit(('yieldfrom', v, self._site(n)))
                out.append((s2, fresh('sent'), None))
            else:
                out.append((s2, None, exc))
        return out

    def ex_Await(self, n, st):
        return self.eval(n.value, st)

    def _comp(self, n, st, elts, ckind):
        """Comprehension: evaluate the first iterable in the enclosing state,
        the rest under fresh iteration variables; calls inside are recorded in
        a 'comp' event."""
        out = []
        for s2, it, exc in self.eval(n.generators[0].iter, st):
            if exc is not None:
                out.append((s2, None, exc))
                continue
            un = self._unroll_comp(n, s2, it, elts, ckind)
            if un is not None:
                out.append((s2, un, None))
                continue
            inner = s2.copy()
            inner.trace = ()
            lid = (self.fi.qualname, n.lineno, next(self._loop_ids))
            iters = [it]
            ok = True
            allconds = []
            for gi, g in enumerate(n.generators):
                if gi > 0:
                    r = [x for x in self.eval(g.iter, inner) if x[2] is None]
                    if len(r) != 1:
                        ok = False
                        break
                    inner, itx = r[0][0], r[0][1]
                    iters.append(itx)
                else:
                    itx = it
                rr = self.assign(g.target, ('elem', itx, lid if gi == 0
                                            else (lid, gi)), inner, n)
                inner = rr[0][0]
                conds = []
                for c in g.ifs:
                    r = [x for x in self.eval(c, inner) if x[2] is None]
                    if len(r) != 1:
                        ok = False
                        break
                    inner = r[0][0]
                    conds.append(r[0][1])
                    allconds.append(r[0][1])
            if not ok:
                out.append((s2, fresh('comp'), None))
                continue
            vals = []
            self._nofork += 1
            try:
                for e in elts:
                    r = [x for x in self.eval(e, inner) if x[2] is None]
                    if len(r) != 1:
                        ok = False
                        break
                    inner = r[0][0]
                    vals.append(r[0][1])
            finally:
                self._nofork -= 1
            if not ok:
                out.append((s2, fresh('comp'), None))
                continue
            t = ('comp', ckind, tuple(vals), tuple(iters), lid,
                 tuple(allconds))
            folded = self._fold_comp(ckind, vals, iters, lid, allconds) \
                if not inner.trace else None
            if folded is not None:
                out.append((s2, folded, None))
                continue
            if inner.trace:
                s2.emit(('comp', lid, inner.trace))
            out.append((s2, t, None))
        return out

    def _unroll_comp(self, n, st, it, elts, ckind):
        """A comprehension over a short sequence whose elements are all
        known terms (a tuple of classes, of parameters, ...), with pure
        element expressions: evaluated once per element.
        `{cls._messageType: cls for cls in (A, B, C)}` is the dict it
        denotes."""
        if len(n.generators) != 1:
            return None
        if kind(it) in ('tuple', 'list'):
            items = [x[1] if kind(x) == 'item' else x for x in it[1]]
            if any(kind(x) in ('splice', 'prefix', 'starseq')
                   for x in it[1]):
                return None
        else:
            # a short constant sequence (a string of format codes, a range)
            ok_, seq = try_py(it)
            if not ok_ or isinstance(seq, dict):
                return None
            try:
                items = [from_py(x) for x in seq]
            except TypeError:
                return None
        # (a table computed from a constant range is cheap whatever its size)
        if not (0 < len(items) <= (256 if all(is_const(x) for x in items)
                                   else 16)):
            return None
        g = n.generators[0]
        rows = []
        for x in items:
            s_i = st.copy()
            s_i.trace = ()
            r = self.assign(g.target, x, s_i, n)
            if len(r) != 1 or r[0][1] != 'normal':
                return None
            s_i = r[0][0]
            keep = True
            for c in g.ifs:
                rr = [y for y in self.eval(c, s_i) if y[2] is None]
                if len(rr) != 1:
                    return None
                s_i = rr[0][0]
                tv = self.decide(rr[0][1], s_i)
                if tv is None:
                    return None
                keep = keep and tv
            vals = []
            for e in elts:
                rr = [y for y in self.eval(e, s_i) if y[2] is None]
                if len(rr) != 1:
                    return None
                s_i = rr[0][0]
                vals.append(rr[0][1])
            if s_i.trace:
                return None          # not pure: keep the symbolic form
            if keep:
                rows.append(vals)
        if ckind == 'list':
            return ('list', tuple(('item', r[0]) for r in rows))
        if ckind == 'dict':
            return ('dict', tuple((r[0], r[1]) for r in rows))
        if ckind == 'gen':
            # consumed once by whoever receives it (an unpacking assignment,
            # tuple(), a loop): the sequence it produces
            return ('tuple', tuple(r[0] for r in rows))
        return None

    @staticmethod
    def _fold_comp(ckind, vals, iters, lid, conds):
        """A comprehension over a small constant sequence whose element
        expressions fold for every element is the constant it denotes
        (`{n: b'\\0' * n for n in range(8)}`)."""
        if ckind == 'gen':
            return None
        import itertools
        seqs = []
        for it_ in iters:
            ok, seq = try_py(it_)
            if not ok:
                return None
            try:
                seqs.append(list(seq))
            except TypeError:
                return None
        total = 1
        for q in seqs:
            total *= max(1, len(q))
        if total > 64:
            return None
        # (several generators: the iterables must not depend on each other,
        # which holds when each folded to a constant on its own)
        elems = [('elem', it_, lid if gi == 0 else (lid, gi))
                 for gi, it_ in enumerate(iters)]
        if len(set(elems)) != len(elems):
            return None      # the same sequence twice: cannot tell them apart
        rows = []
        for combo in itertools.product(*seqs):
            try:
                env = {e: from_py(x) for e, x in zip(elems, combo)}
            except Exception:
                return None
            keep = True
            for c in conds:
                tv = truth(subst_fold(c, env))
                if tv is None:
                    return None
                keep = keep and tv
            if not keep:
                continue
            row = [try_py(subst_fold(v, env)) for v in vals]
            if not all(okv for okv, _ in row):
                return None
            rows.append([pv for _, pv in row])
        try:
            if ckind == 'list':
                return from_py([r[0] for r in rows])
            if ckind == 'set':
                return from_py({r[0] for r in rows})
            if ckind == 'dict':
                return from_py({r[0]: r[1] for r in rows})
        except Exception:
            return None
        return None

    def ex_ListComp(self, n, st):
        return self._comp(n, st, [n.elt], 'list')

    def ex_SetComp(self, n, st):
        return self._comp(n, st, [n.elt], 'set')

    def ex_GeneratorExp(self, n, st):
        return self._comp(n, st, [n.elt], 'gen')

    def ex_DictComp(self, n, st):
        return self._comp(n, st, [n.key, n.value], 'dict')

    # calls ----------------------------------------------------------------

    def ex_Call(self, n, st):
        out = []
        for s1, fn, exc in self.eval(n.func, st):
            if exc is not None:
                out.append((s1, None, exc))
                continue
            kwnodes = [k.value for k in n.keywords]
            for s2, vals, exc2 in self.eval_many(list(n.args) + kwnodes, s1):
                if exc2 is not None:
                    out.append((s2, None, exc2))
                    continue
                na = len(n.args)
                args = tuple(vals[:na])
                kwargs = []
                for k, v in zip(n.keywords, vals[na:]):
                    if k.arg is None:
                        # **<constant mapping> (a dict display, a module-level
                        # MappingProxyType of one): its items are keywords
                        d = v
                        if kind(d) == 'call' and d[1] in (
                                'types.MappingProxyType', 'dict') and \
                                len(d[3]) == 1 and not d[4]:
                            d = d[3][0]
                        if kind(d) == 'dict' and all(
                                is_const(a) and isinstance(a[1], str)
                                for a, _ in d[1]):
                            kwargs.extend((a[1], b) for a, b in d[1])
                            continue
                    kwargs.append((k.arg if k.arg is not None else '**', v))
                kwargs = tuple(kwargs)
                out.extend(self.call(n, fn, args, kwargs, s2))
        return out

    def call_target(self, fn):
        k = kind(fn)
        if k in ('func', 'class', 'ext', 'builtin'):
            return fn[1]
        if k == 'bound':
            return fn[2]
        if k == 'funcref':
            return fn[1]
        return None

    def call(self, n, fn, args, kwargs, st):
        target = self.call_target(fn)
        site = self._site(n)
        # functools.lru_cache(f) / lru_cache(maxsize=..)(f) / cache(f): the
        # cached function answers as f does (generators excluded by DM.G)
        if kind(fn) == 'call' and fn[3] and not fn[4]:
            inner = fn[2]
            if (fn[1] in _RESULT_CACHES or (
                    kind(inner) == 'call' and inner[1] in _RESULT_CACHES)) \
                    and kind(fn[3][0]) in ('func', 'funcref', 'bound'):
                fn = fn[3][0]
                target = self.call_target(fn)
        if kind(fn) == 'call' and fn[1] in ('collections.namedtuple',
                                             'typing.NamedTuple') and \
                len(fn[3]) >= 2 and not any(kind(a) == 'splice'
                                            for a in args):
            # X = namedtuple('X', 'a b c'); X(1, 2, c=3) is the tuple
            # (1, 2, 3) (field access by name is not modelled)
            okf, fields = try_py(fn[3][1])
            if okf:
                if isinstance(fields, str):
                    fields = fields.replace(',', ' ').split()
                else:
                    fields = [f[0] if isinstance(f, (tuple, list)) else f
                              for f in fields]
                kw = dict(kwargs)
                vals = list(args)
                good = len(vals) <= len(fields) and '**' not in kw
                for f in fields[len(vals):]:
                    if f in kw:
                        vals.append(kw.pop(f))
                    else:
                        good = False
                if good and not kw:
                    return [(st, ('tuple', tuple(vals)), None)]
        if kind(fn) == 'attr' and kind(fn[1]) == 'call' and \
                fn[1][1] == 'struct.Struct' and len(fn[1][3]) == 1 and \
                fn[2] in ('pack', 'unpack', 'unpack_from', 'pack_into',
                          'iter_unpack'):
            # a compiled Struct is the module-level function with its format
            args = (fn[1][3][0],) + tuple(args)
            fn = ('ext', 'struct.' + fn[2])
            target = fn[1]
        if kind(fn) == 'attr' and self.is_runtime_memo(fn[1]):
            st.emit(('memo-call', fn[1], fn[2], args, site))
            if fn[2] == 'get':
                return [(st, args[1] if len(args) > 1 else NONE, None)]
            if fn[2] == 'setdefault' and len(args) == 2:
                return [(st, args[1], None)]
            if fn[2] in ('add', 'append', 'update', 'insert', 'extend',
                         'appendleft', 'discard', 'clear'):
                return [(st, NONE, None)]
            if fn[2] == 'pop' and len(args) == 2:
                return [(st, args[1], None)]
        # pure folding
        if kind(fn) == 'builtin' and fn[1] in _PURE_BUILTINS and not kwargs:
            oks = [try_py(a) for a in args]
            if all(o for o, _ in oks):
                try:
                    return [(st, from_py(_PURE_BUILTINS[fn[1]](
                        *[v for _, v in oks])), None)]
                except Exception:
                    pass
            if fn[1] in ('list', 'tuple') and len(args) == 1 and \
                    kind(args[0]) in ('list', 'tuple') and all(
                        kind(x) not in ('splice', 'starseq', 'prefix')
                        for x in args[0][1]):
                # a copy of a sequence whose elements are all known
                els = [x[1] if kind(x) == 'item' else x
                       for x in args[0][1]]
                if fn[1] == 'list':
                    return [(st, ('list', tuple(('item', x) for x in els)),
                             None)]
                return [(st, ('tuple', tuple(els)), None)]
            if fn[1] == 'len' and len(args) == 1:
                a = args[0]
                if kind(a) in ('tuple',) and not any(
                        kind(x) == 'splice' for x in a[1]):
                    return [(st, C(len(a[1])), None)]
                if kind(a) == 'list' and all(kind(x) == 'item'
                                             for x in a[1]):
                    return [(st, C(len(a[1])), None)]
        if target == 'struct.calcsize' and len(args) == 1 and \
                is_const(args[0]):
            try:
                return [(st, C(struct.calcsize(args[0][1])), None)]
            except Exception:
                pass
        if kind(fn) == 'builtin' and fn[1] == 'getattr' and \
                len(args) >= 2 and is_const(args[1]) and \
                isinstance(args[1][1], str):
            v = self.getattr_term(args[0], args[1][1], st)
            if kind(v) != 'attr':
                return [(st, v, None)]
            if len(args) == 3 and _is_sentinel(args[2]) and not kwargs:
                # x = getattr(o, 'name', _absent) ... `x is not _absent`: the
                # spelling of hasattr(o, 'name') + o.name with a private
                # sentinel (an `object()` nobody stores anywhere)
                h = ('call', 'hasattr', ('builtin', 'hasattr'),
                     (args[0], args[1]), (), None)
                s_yes, s_no = st.copy(), st.copy()
                self.assume(s_yes, h, True)
                self.assume(s_no, h, False)
                self._count()
                return [(s_yes, v, None), (s_no, args[2], None)]
        # method calls on tracked lists / dicts held in a simple slot
        res = self._container_method(n, fn, args, kwargs, st, site)
        if res is not None:
            return res
        # constant methods of constants: b' '.join, 'x'.startswith ...
        if kind(fn) == 'attr' and is_const(fn[1]) and not kwargs:
            oks = [try_py(a) for a in args]
            if all(o for o, _ in oks) and fn[2] in _CONST_METHODS:
                try:
                    return [(st, from_py(getattr(fn[1][1], fn[2])(
                        *[v for _, v in oks])), None)]
                except Exception:
                    pass
        if kind(fn) == 'builtin' and fn[1] == 'isinstance' and \
                len(args) == 2 and not kwargs and is_const(args[0]):
            # isinstance(<constant>, <builtin type or tuple of them>)
            ts = [args[1]] if kind(args[1]) == 'builtin' else (
                list(args[1][1]) if kind(args[1]) == 'tuple' else [])
            import builtins as _b
            tys = [getattr(_b, t[1], None) if kind(t) == 'builtin' else None
                   for t in ts]
            if ts and all(isinstance(t, type) for t in tys):
                return [(st, C(isinstance(args[0][1], tuple(tys))), None)]
        if kind(fn) == 'builtin' and fn[1] in _PURE_PREDICATES:
            # pure: two evaluations with equal arguments are the same value
            site = None
        if target == 'struct.Struct' and len(args) == 1 and not kwargs:
            # an immutable value: compiled format, no effect, no event
            return [(st, ('call', target, fn, args, kwargs, None), None)]
        call_t = ('call', target, fn, args, kwargs, site)
        results = []
        # exception edge - unless the callee is a helper the rules do not
        # know, which is analysed inline: what raises in it has its own edge
        # there (named after what actually raises)
        helper = None
        if kind(fn) in ('func', 'funcref'):
            helper = self.prog.all_funcs.get(fn[1])
        known = self.prog.known_funcs()
        transparent = helper is not None and known is not None and \
            helper.qualname not in known and \
            not self.prog.is_renamed_closure(helper.qualname) and \
            helper not in self._stack and \
            len(self._stack) < min(self.max_depth, 4) and \
            not _is_generator(helper.node) and \
            not any(kind(a) == 'splice' for a in args) and \
            not any(k == '**' for k, _ in kwargs) and \
            self._bind(helper, args, kwargs, None) is not None
        if kind(fn) == 'builtin' and fn[1] in _NO_RAISE_BUILTINS:
            transparent = True      # cannot raise: no exception edge
        if self._try and self.exc_edges and not transparent:
            s3 = st.copy()
            s3.emit(('exc-edge', target or term_str(fn), site))
            results.append((s3, None, fresh('exc', target or 'call')))
            self._count()
        # inlining
        callee = None
        self_term = None
        if kind(fn) == 'func':
            callee = self.prog.all_funcs.get(fn[1])
        elif kind(fn) == 'bound':
            callee = self.prog.all_funcs.get(fn[2])
            self_term = fn[1]
        elif kind(fn) == 'funcref':
            callee = self.prog.all_funcs.get(fn[1])
        elif kind(fn) == 'class':
            c = self.prog.all_classes.get(fn[1])
            init = self.prog.lookup_method(c, '__init__') if c else None
            if init is not None and self.inline(init.qualname,
                                                len(self._stack)):
                callee = init
                self_term = ('inst', fn[1], site)
        if callee is not None and callee not in self._stack and \
                len(self._stack) < self.max_depth and \
                self.inline(callee.qualname, len(self._stack)) and \
                not any(kind(a) == 'splice' for a in args) and \
                not any(k == '**' for k, _ in kwargs) and \
                not _is_generator(callee.node):
            bound = self._bind(callee, args, kwargs, self_term)
            if bound is not None:
                st.emit(('enter', callee.qualname, site, call_t))
                sub_state = st.copy()
                caller_store = sub_state.store
                closure = kind(fn) == 'funcref' and callee.parent is self.fi
                if closure:
                    sub_state.store = dict(caller_store)
                    lnames, _ = self._loop_writes(callee.node.body)
                    lnames |= set(bound)
                    for nn in Program_iter_nonlocals(callee.node):
                        lnames.discard(nn)
                else:
                    sub_state.store = {}
                    if kind(fn) == 'funcref' and len(fn) > 2 and \
                            kind(fn[2]) == 'env':
                        sub_state.store.update(dict(fn[2][1]))
                paths = self.run(callee, bound, sub_state,
                                 self_term=self_term)
                # a list / dict handed to the callee by NAME and changed there
                # in place (chunks.append(..), never rebound) is changed for
                # the caller too
                shared_back = []
                try:
                    arg_nodes = list(getattr(n, 'args', []) or [])
                except AttributeError:
                    arg_nodes = []
                if arg_nodes and not any(isinstance(a_, ast.Starred)
                                         for a_ in arg_nodes):
                    a_ = callee.node.args
                    pos_names = [x.arg for x in a_.posonlyargs + a_.args]
                    if self_term is not None:
                        pos_names = pos_names[1:]
                    rebound = {x.id for x in ast.walk(callee.node)
                               if isinstance(x, ast.Name) and
                               isinstance(x.ctx, ast.Store)}
                    for i_, an in enumerate(arg_nodes):
                        if isinstance(an, ast.Name) and i_ < len(pos_names) \
                                and pos_names[i_] not in rebound and \
                                an.id in caller_store:
                            shared_back.append((pos_names[i_], an.id))
                for p in paths:
                    s4 = p.state
                    callee_store = s4.store
                    s4.store = dict(caller_store)
                    for prm_, nm_ in shared_back:
                        v_ = callee_store.get(prm_)
                        if v_ is not None and v_ != bound.get(prm_):
                            s4.store[nm_] = v_
                    if closure:
                        for nn, vv in callee_store.items():
                            if nn in caller_store and nn not in lnames:
                                s4.store[nn] = vv
                    s4.emit(('leave', callee.qualname, site))
                    if p.outcome == 'raise':
                        results.append((s4, None, p.value))
                    else:
                        rv = p.value
                        if kind(fn) == 'class':
                            rv = self_term
                        results.append((s4, rv, None))
                return results
        st.emit(('call', call_t))
        results.append((st, call_t, None))
        return results

    def _bind(self, callee, args, kwargs, self_term):
        a = callee.node.args
        names = [p.arg for p in a.posonlyargs + a.args]
        bound = {}
        i = 0
        if callee.is_method and self_term is not None and names:
            bound[names[0]] = self_term
            i = 1
        for v in args:
            if i >= len(names):
                if a.vararg:
                    continue
                return None
            bound[names[i]] = v
            i += 1
        allnames = set(names) | {p.arg for p in a.kwonlyargs}
        for k, v in kwargs:
            if k not in allnames:
                if a.kwarg:
                    continue
                return None
            bound[k] = v
        # defaults
        pos = a.posonlyargs + a.args
        dmap = {}
        for p, d in zip(pos[len(pos) - len(a.defaults):], a.defaults):
            dmap[p.arg] = d
        for p, d in zip(a.kwonlyargs, a.kw_defaults):
            if d is not None:
                dmap[p.arg] = d
        for nme in allnames:
            if nme not in bound:
                if nme in dmap:
                    v = self.eval_in_module(callee.module, dmap[nme])
                    bound[nme] = v if v is not None else fresh('default')
                else:
                    return None
        return bound

    def _container_method(self, n, fn, args, kwargs, st, site):
        if kind(fn) != 'attr' or not isinstance(n.func, ast.Attribute):
            return None
        recv, meth = fn[1], fn[2]
        rnode = n.func.value
        if meth in _MUTATORS and kind(recv) not in ('list', 'dict', 'const'):
            # in-place mutation of an opaque container: what the path knew
            # about its emptiness is no longer true
            st.truthy = st.truthy - {recv}
            st.falsy = st.falsy - {recv}
            st.cut[recv] = len(st.cond)
        if meth in ('append', 'extend') and len(args) == 1 and \
                kind(recv) in ('sub', 'call', 'loopout', 'param') and \
                self._slot_exists(rnode, st) and \
                not isinstance(rnode, ast.Attribute):
            recv = ('list', (('splice', recv),))
        if kind(recv) == 'list' and meth in ('append', 'extend', 'insert',
                                             'reverse', 'pop'):
            items = recv[1]
            newv = None
            ret = NONE
            if meth == 'append' and len(args) == 1:
                newv = ('list', items + (('item', args[0]),))
            elif meth == 'extend' and len(args) == 1:
                a = args[0]
                if kind(a) == 'list':
                    newv = ('list', items + a[1])
                else:
                    newv = ('list', items + (('splice', a),))
            elif meth == 'insert' and len(args) == 2 and args[0] == C(0) \
                    and not any(kind(x) == 'prefix' for x in items):
                newv = ('list', (('item', args[1]),) + items)
            elif meth == 'reverse' and not args and \
                    all(kind(x) == 'item' for x in items):
                newv = ('list', tuple(reversed(items)))
            elif meth == 'pop' and all(kind(x) == 'item' for x in items) \
                    and items and (not args or (
                        is_const(args[0]) and isinstance(args[0][1], int)
                        and -len(items) <= args[0][1] < len(items))):
                idx = args[0][1] if args else -1
                lst = list(items)
                ret = lst.pop(idx)[1]
                newv = ('list', tuple(lst))
            if newv is not None and self._store_slot(rnode, newv, st):
                st.emit(('mutate', recv, meth, args, site))
                return [(st, ret, None)]
            # untracked receiver slot: havoc
            if meth in _MUTATORS:
                self._store_slot(rnode, fresh('list'), st)
            return None
        if kind(recv) == 'list' and meth == 'copy' and not args:
            return [(st, recv, None)]
        if kind(recv) == 'dict':
            if meth == 'get' and args and is_const(args[0]):
                for a, v in recv[1]:
                    if a == args[0]:
                        return [(st, v, None)]
                if all(is_const(a) for a, _ in recv[1]):
                    return [(st, args[1] if len(args) > 1 else NONE, None)]
            if meth == 'get' and args and not is_const(args[0]) and \
                    0 < len(recv[1]) <= 6 and _is_closed(recv) and \
                    all(is_const(v) or kind(v) == 'func'
                        for _, v in recv[1]):
                # a small constant table looked up with an unknown key: one
                # outcome per entry (key == entry key) and the default
                out = []
                for a, v in recv[1]:
                    s3 = st.copy()
                    oka, pa = try_py(a)
                    if kind(args[0]) == 'tuple' and oka and \
                            isinstance(pa, tuple) and \
                            len(pa) == len(args[0][1]):
                        # (x, y) == ('a', 'b'): x == 'a' and y == 'b'
                        for t_, k_ in zip(args[0][1], pa):
                            self.assume(s3, ('cmp', '==', t_, from_py(k_)),
                                        True)
                    else:
                        self.assume(s3, ('cmp', '==', args[0], a), True)
                    out.append((s3, v, None))
                    self._count()
                s4 = st.copy()
                for a, _ in recv[1]:
                    self.assume(s4, ('cmp', '==', args[0], a), False)
                out.append((s4, args[1] if len(args) > 1 else NONE, None))
                return out
            if meth in ('keys', 'values', 'items') and not args:
                if meth == 'keys':
                    return [(st, ('tuple', tuple(a for a, _ in recv[1])),
                             None)]
                if meth == 'values':
                    return [(st, ('tuple', tuple(v for _, v in recv[1])),
                             None)]
                return [(st, ('tuple', tuple(('tuple', (a, v))
                                              for a, v in recv[1])), None)]
            if meth in _MUTATORS:
                self._store_slot(rnode, fresh('dict'), st)
        return None


# ---------------------------------------------------------------------------

_PURE_PREDICATES = {'isinstance', 'issubclass', 'hasattr', 'callable', 'len',
                    'type', 'id'}
_BINOPS_BY_NAME = {v[0]: v[1] for v in _BINOPS.values()}
_CMPOPS_BY_NAME = {v[0]: v[1] for v in _CMPOPS.values()}
_CONST_METHODS = {'join', 'startswith', 'endswith', 'encode', 'decode',
                  'split', 'strip', 'lower', 'upper', 'format', 'replace',
                  'rstrip', 'lstrip', 'count', 'find', 'isdigit', 'partition'}
_BUILTIN_NAMES = set(dir(__import__('builtins')))


def _desugar_quantifier(s):
    """`if any(P(x) for x in S): A else: B` (also all / not any / not all)
    as the loop it abbreviates:
        q = False
        for x in S:
            if P(x):
                q = True
                break
        if q: A else: B
    so that the rules see the same loop events as for the hand-written loop.
    Returns the replacement statements or None."""
    import copy
    t = s.test
    neg = False
    if isinstance(t, ast.UnaryOp) and isinstance(t.op, ast.Not):
        neg, t = True, t.operand
    if not (isinstance(t, ast.Call) and isinstance(t.func, ast.Name) and
            t.func.id in ('any', 'all') and len(t.args) == 1 and
            not t.keywords and
            isinstance(t.args[0], (ast.GeneratorExp, ast.ListComp)) and
            len(t.args[0].generators) == 1 and
            not t.args[0].generators[0].is_async):
        return None
    is_any = t.func.id == 'any'
    g = t.args[0].generators[0]
    tmp = '__q%d_%d' % (s.lineno, s.col_offset)
    # comprehension variables have their own scope: rename them
    bound = {n.id for n in ast.walk(g.target) if isinstance(n, ast.Name)}

    class Ren(ast.NodeTransformer):
        def visit_Name(self, n):
            if n.id in bound:
                return ast.copy_location(
                    ast.Name(id=tmp + '_' + n.id, ctx=n.ctx), n)
            return n
    target = Ren().visit(copy.deepcopy(g.target))
    elt = Ren().visit(copy.deepcopy(t.args[0].elt))
    ifs = [Ren().visit(copy.deepcopy(i)) for i in g.ifs]
    hit = elt if is_any else ast.UnaryOp(op=ast.Not(), operand=elt)
    if ifs:
        hit = ast.BoolOp(op=ast.And(), values=ifs + [hit])
    flag = lambda ctx: ast.Name(id=tmp, ctx=ctx)
    init = ast.Assign(targets=[flag(ast.Store())],
                      value=ast.Constant(value=not is_any))
    loop = ast.For(
        target=target, iter=g.iter,
        body=[ast.If(test=hit, body=[
            ast.Assign(targets=[flag(ast.Store())],
                       value=ast.Constant(value=is_any)),
            ast.Break()], orelse=[])],
        orelse=[])
    test2 = flag(ast.Load())
    if neg:
        test2 = ast.UnaryOp(op=ast.Not(), operand=test2)
    final = ast.If(test=test2, body=s.body, orelse=s.orelse)
    out = [init, loop, final]
    for n in out:
        ast.copy_location(n, s)
        ast.fix_missing_locations(n)
    return out


def _mutates_attr(node, attr):
    """X.attr[...] = / del X.attr[...] / X.attr.mutator(...)"""
    if isinstance(node, ast.Subscript) and \
            isinstance(node.ctx, (ast.Store, ast.Del)) and \
            isinstance(node.value, ast.Attribute) and node.value.attr == attr:
        return True
    if isinstance(node, ast.Call) and isinstance(node.func, ast.Attribute) \
            and node.func.attr in _MUTATORS and \
            isinstance(node.func.value, ast.Attribute) and \
            node.func.value.attr == attr:
        return True
    return False


def _slot_name(sl):
    if sl[0] == 'v':
        return sl[1]
    return '%s.%s' % (term_str(sl[1]), sl[2])


def _as_load(t):
    if isinstance(t, ast.Name):
        return ast.Name(id=t.id, ctx=ast.Load())
    if isinstance(t, ast.Attribute):
        return ast.Attribute(value=t.value, attr=t.attr, ctx=ast.Load())
    if isinstance(t, ast.Subscript):
        return ast.Subscript(value=t.value, slice=t.slice, ctx=ast.Load())
    raise AnalysisError('unsupported augmented target')


def _handler_names(h):
    if h.type is None:
        return None
    if isinstance(h.type, ast.Tuple):
        return [(dotted(e) or '?').split('.')[-1] for e in h.type.elts]
    return [(dotted(h.type) or '?').split('.')[-1]]


def Program_iter_nonlocals(fnode):
    from .loader import Program
    for n in Program._iter_scope(fnode):
        if isinstance(n, ast.Nonlocal):
            for x in n.names:
                yield x


def _is_generator(fnode):
    from .loader import Program
    for n in Program._iter_scope(fnode):
        if isinstance(n, (ast.Yield, ast.YieldFrom)):
            return True
    return False


def _is_closed(t):
    """No free/param/fresh parts: a module-level constant structure."""
    return not contains(t, lambda x: x[0] in ('param', 'fresh', 'free',
                                               'loopvar', 'loopout', 'elem'))


# ---------------------------------------------------------------------------
# substitution + re-folding of terms (used to evaluate small extracted
# expressions over a finite set of values, e.g. flag bits or padding residues)

def _is_sentinel(t):
    """`object()` evaluated at module level: a value of its own."""
    return kind(t) == 'call' and t[2] == ('builtin', 'object') and \
        not t[3] and not t[4]


def subst_fold(t, mapping):
    """Replace sub-terms per mapping (term -> term) and constant-fold the
    result bottom-up."""
    it = Interp.__new__(Interp)

    def go(x):
        if x in mapping:
            return mapping[x]
        if not isinstance(x, tuple) or not x:
            return x
        if not isinstance(x[0], str):
            # a plain sequence of terms (elements of a tuple / list / dict)
            return tuple(go(y) if isinstance(y, tuple) else y for y in x)
        k = x[0]
        if k == 'binop':
            return Interp.binop(it, x[1], go(x[2]), go(x[3]))
        if k == 'cmp':
            a_, b_ = go(x[2]), go(x[3])
            if kind(a_) == 'builtin' and kind(b_) == 'builtin' and \
                    x[1] in ('is', 'is not', '==', '!='):
                # type(<constant>) is str
                return C((a_[1] == b_[1]) == (x[1] in ('is', '==')))
            return Interp.compare(it, x[1], a_, b_)
        if k == 'call' and kind(x[2]) == 'builtin' and x[2][1] == 'type' \
                and len(x[3]) == 1 and not x[4]:
            v = go(x[3][0])
            if is_const(v) and type(v[1]) in (str, bytes, int, bool, float):
                return ('builtin', type(v[1]).__name__)
            return ('call', x[1], x[2], (v,), x[4], x[5])
        if k == 'call' and kind(x[2]) == 'builtin' and \
                x[2][1] == 'isinstance' and len(x[3]) == 2 and not x[4]:
            v, t_ = go(x[3][0]), go(x[3][1])
            ts = [t_] if kind(t_) == 'builtin' else (
                list(t_[1]) if kind(t_) == 'tuple' else [])
            if is_const(v) and ts and all(
                    kind(y) == 'builtin' and y[1] in (
                        'str', 'bytes', 'int', 'bool', 'float', 'list',
                        'tuple', 'dict', 'bytearray') for y in ts):
                import builtins as _b
                return C(isinstance(v[1], tuple(getattr(_b, y[1])
                                                for y in ts)))
            return ('call', x[1], x[2], (v, t_), x[4], x[5])
        if k == 'unop':
            v = go(x[2])
            if x[1] == 'not':
                tv = truth(v)
                return C(not tv) if tv is not None else ('unop', 'not', v)
            ok, pv = try_py(v)
            if ok:
                try:
                    return C({'-': lambda z: -z, '+': lambda z: +z,
                              '~': lambda z: ~z}[x[1]](pv))
                except Exception:
                    pass
            return ('unop', x[1], v)
        if k == 'boolop':
            vals = [go(v) for v in x[2]]
            is_and = x[1] == 'and'
            acc = []
            for i, v in enumerate(vals):
                if i == len(vals) - 1:
                    acc.append(v)
                    break
                tv = truth(v)
                if tv is None:
                    acc.append(v)
                elif tv == is_and:
                    continue
                else:
                    acc.append(v)
                    break
            return acc[0] if len(acc) == 1 else ('boolop', x[1], tuple(acc))
        if k == 'ifexp':
            c = go(x[1])
            tv = truth(c)
            if tv is True:
                return go(x[2])
            if tv is False:
                return go(x[3])
            return ('ifexp', c, go(x[2]), go(x[3]))
        if k == 'sub':
            return Interp.subscript(it, go(x[1]), go(x[2]))
        if k == 'call' and kind(x[2]) == 'attr' and not x[4] and \
                x[2][2] in _CONST_METHODS:
            recv = go(x[2][1])
            args = tuple(go(a) for a in x[3])
            okr, pr = try_py(recv)
            oks = [try_py(a) for a in args]
            if okr and isinstance(pr, (str, bytes)) and \
                    all(o for o, _ in oks):
                try:
                    return from_py(getattr(pr, x[2][2])(
                        *[v for _, v in oks]))
                except Exception:
                    pass
            return ('call', x[1], ('attr', recv, x[2][2]), args, x[4], x[5])
        if k == 'call' and kind(x[2]) == 'attr' and not x[4] and \
                not x[3] and x[2][2] in ('bit_length', 'bit_count'):
            recv = go(x[2][1])
            okr, pr = try_py(recv)
            if okr and isinstance(pr, int) and not isinstance(pr, bool):
                return C(getattr(pr, x[2][2])())
            return ('call', x[1], ('attr', recv, x[2][2]), (), x[4], x[5])
        if k == 'call' and kind(x[2]) == 'attr' and not x[4] and \
                x[2][2] == 'get' and kind(x[2][1]) == 'dict' and \
                1 <= len(x[3]) <= 2:
            # constant_table.get(key[, default]) once the key is constant
            recv = go(x[2][1])
            args = tuple(go(a) for a in x[3])
            if kind(recv) == 'dict' and is_const(args[0]) and \
                    all(is_const(a) for a, _ in recv[1]):
                for a, v in recv[1]:
                    if a == args[0]:
                        return v
                return args[1] if len(args) > 1 else NONE
            return ('call', x[1], ('attr', recv, 'get'), args, x[4], x[5])
        if k == 'call' and kind(x[2]) == 'builtin' and \
                x[2][1] in _PURE_BUILTINS and not x[4]:
            args = tuple(go(a) for a in x[3])
            oks = [try_py(a) for a in args]
            if all(o for o, _ in oks):
                try:
                    return from_py(_PURE_BUILTINS[x[2][1]](
                        *[v for _, v in oks]))
                except Exception:
                    pass
            return ('call', x[1], x[2], args, x[4], x[5])
        return tuple(go(y) if isinstance(y, tuple) else y for y in x)
    return go(t)
